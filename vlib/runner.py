"""Runner shared by all property checks.

    ./check <ID> [--tier quick|thorough] [--replay FILE]

Exit codes: 0 held on everything explored (KNOWN-FINDING lines allowed),
            1 violation found ("VIOLATION property=<id> replay=<path>"),
            2 harness error (never a verdict about the code).

A property module ``props/cNN.py`` provides

    ID, LEVEL, RULE, ASSUMPTIONS
    shards(tier, seed)  -> list of (function_name, kwargs)   (picklable)
    <function_name>(acc, **kwargs)       runs in a worker process, fills acc
    replay(case) -> None | (signature, detail)   one saved case, real code
    shrink(case, still_fails) -> case    optional
    EXHAUSTIVE(tier) -> bool             optional

The survey never asserts: every failing case is recorded with a root-cause
signature and decided afterwards against known_findings.json
(collect-then-decide, DESIGN.md section 3).
"""
import argparse
import gc
import hashlib
import importlib
import json
import multiprocessing as mp
import os
import sys
import time
import traceback
from collections import Counter

VERIF = os.path.dirname(os.path.dirname(os.path.abspath(__file__)))
REPO = os.environ.get("VERIF_REPO", "/repo")
KNOWN = os.path.join(VERIF, "known_findings.json")


class HarnessError(Exception):
    pass


def digest(key) -> bytes:
    if isinstance(key, str):
        key = key.encode("utf-8", "surrogatepass")
    elif not isinstance(key, (bytes, bytearray)):
        key = repr(key).encode("utf-8", "surrogatepass")
    return hashlib.blake2b(key, digest_size=8).digest()


class Acc:
    """Accumulator filled by one shard; merged by the runner."""

    MAX_SAMPLES = 4
    MAX_PER_SIG = 3

    def __init__(self, deadline=None):
        self.evaluations = 0
        self.nontrivial = set()
        self.classes = Counter()
        self.samples = []
        self.failures = {}      # signature -> [count, [cases...]]
        self.notes = {}
        self.deadline = deadline

    def expired(self):
        return self.deadline is not None and time.time() > self.deadline

    def case(self, key=None, nontrivial=False, sample=None, n=1):
        """Count one evaluated case.  *key* identifies the case for the
        distinct-nontrivial count, *sample* is a JSON-able rendering."""
        self.evaluations += n
        if nontrivial and key is not None:
            self.nontrivial.add(digest(key))
            if sample is not None and len(self.samples) < self.MAX_SAMPLES:
                self.samples.append(sample)

    def event(self, name, n=1):
        self.classes[name] += n

    def fail(self, signature, case, detail=""):
        ent = self.failures.setdefault(signature, [0, []])
        ent[0] += 1
        size = len(json.dumps(case, default=repr))
        ent[1].append((size, case, str(detail)[:2000]))
        ent[1].sort(key=lambda x: x[0])
        del ent[1][self.MAX_PER_SIG:]

    def merge(self, other):
        self.evaluations += other.evaluations
        self.nontrivial |= other.nontrivial
        self.classes.update(other.classes)
        for s in other.samples:
            if len(self.samples) < 12:
                self.samples.append(s)
        for sig, (cnt, cases) in other.failures.items():
            ent = self.failures.setdefault(sig, [0, []])
            ent[0] += cnt
            ent[1].extend(cases)
            ent[1].sort(key=lambda x: x[0])
            del ent[1][self.MAX_PER_SIG:]
        for k, v in other.notes.items():
            if isinstance(v, (int, float)) and isinstance(
                self.notes.get(k), (int, float)
            ):
                self.notes[k] += v
            else:
                self.notes.setdefault(k, v)


CHUNK = 400


def _import_prop(pid):
    pid = pid.upper()
    name = "props.c" + pid[1:].lower()
    return importlib.import_module(name)


def _worker(args):
    pid, fn, kwargs, deadline = args
    try:
        prop = _import_prop(pid)
        acc = Acc(deadline)
        if isinstance(kwargs.get("n"), int) and "seed" in kwargs and kwargs["n"] > CHUNK:
            # Hypothesis keeps a record of every example of a run (about 0.5 MB per
            # example for module-sized draws): long runs are cut into independent
            # runs of CHUNK examples, each with its own derived seed.
            left, i = kwargs["n"], 0
            while left > 0 and not acc.expired():
                kw = dict(kwargs, n=min(CHUNK, left), seed=kwargs["seed"] + 100003 * i)
                getattr(prop, fn)(acc, **kw)
                left -= CHUNK
                i += 1
                gc.collect()
        else:
            getattr(prop, fn)(acc, **kwargs)
        acc.deadline = None
        return ("ok", acc)
    except BaseException as e:
        # An exception that escapes from pvl's own code into a place where the
        # harness did not expect one is reported as a violation (with the shard as
        # its replay), not as a harness error: the observation the property needs
        # could not even be made.  Anything else is a harness error (exit 2).
        tb = traceback.extract_tb(e.__traceback__)
        pvl_dir = os.path.join(os.path.abspath(REPO), "pvl") + os.sep
        inner = [fr for fr in tb if os.path.abspath(fr.filename).startswith(pvl_dir)]
        if inner and tb and os.path.abspath(tb[-1].filename).startswith(pvl_dir) \
                and not isinstance(e, (KeyboardInterrupt, SystemExit, MemoryError)):
            fr = inner[-1]
            sig = (f"{pid}/crash/{type(e).__name__}@"
                   f"{os.path.basename(fr.filename)}:{fr.name}")
            return ("crash", (sig, dict(shard=[fn, kwargs]),
                              traceback.format_exc()[-1500:]))
        return ("err", f"{fn}({kwargs}):\n" + traceback.format_exc())


def load_known(pid):
    if not os.path.exists(KNOWN):
        return [], []
    with open(KNOWN) as f:
        data = json.load(f)
    opens = [e for e in data.get("open", []) if e["property"] == pid]
    fixed = [e for e in data.get("fixed", []) if e["property"] == pid]
    return opens, fixed


def check_pvl_origin():
    sys.path.insert(0, REPO)
    import pvl

    if not os.path.abspath(pvl.__file__).startswith(os.path.abspath(REPO)):
        raise HarnessError(
            f"pvl imported from {pvl.__file__}, expected under {REPO}"
        )


def write_replay(pid, signature, case, detail, tier, seed):
    d = os.path.join(VERIF, ".work", "violations", pid)
    os.makedirs(d, exist_ok=True)
    h = hashlib.blake2b(signature.encode(), digest_size=5).hexdigest()
    path = os.path.join(d, f"{pid}-{h}.json")
    with open(path, "w") as f:
        json.dump(
            dict(property=pid, signature=signature, case=case,
                 detail=detail, tier=tier, seed=seed),
            f, indent=1, default=repr,
        )
    return path


def replay_case(prop, case):
    """prop.replay(case), or - for a crash record - re-running its shard."""
    if isinstance(case, dict) and set(case) == {"shard"}:
        fn, kwargs = case["shard"]
        status, payload = _worker((prop.ID, fn, kwargs, time.time() + 120))
        if status == "crash":
            return (payload[0], payload[2])
        if status == "ok" and payload.failures:
            sig = sorted(payload.failures)[0]
            return (sig, payload.failures[sig][1][0][2])
        return None
    return prop.replay(case)


def do_replay(prop, path):
    with open(path) as f:
        rec = json.load(f)
    res = replay_case(prop, rec["case"])
    if res is None:
        print(f"replay {path}: property held on this case")
        return 0
    sig, detail = res
    print(f"replay {path}: FAILS signature={sig}\n  {detail}")
    print(f"VIOLATION property={prop.ID} replay={path}")
    return 1


def shrink_failure(prop, signature, case, budget_s=25.0):
    fn = getattr(prop, "shrink", None)
    if fn is None or (isinstance(case, dict) and set(case) == {"shard"}):
        return case
    t_end = time.time() + budget_s

    class _Stop(Exception):
        pass

    def still_fails(c):
        if time.time() > t_end:
            raise _Stop()
        try:
            r = replay_case(prop, c)
        except Exception:
            return False
        return r is not None and r[0] == signature

    try:
        best = fn(case, still_fails)
        return best if best is not None else case
    except _Stop:
        return getattr(fn, "best", None) or case
    except Exception:
        return case


def main(argv=None):
    ap = argparse.ArgumentParser()
    ap.add_argument("pid")
    ap.add_argument("--tier", default=os.environ.get("VERIF_TIER", "quick"),
                    choices=["quick", "thorough"])
    ap.add_argument("--replay")
    ap.add_argument("--procs", type=int,
                    default=int(os.environ.get("VERIF_PROCS", "16")))
    args = ap.parse_args(argv)
    t0 = time.time()
    try:
        seed = int(os.environ.get("VERIF_SEED", "1") or "1")
    except ValueError:
        seed = 1
    try:
        check_pvl_origin()
        prop = _import_prop(args.pid)
    except Exception:
        traceback.print_exc()
        print("HARNESS-ERROR: import failed")
        return 2
    pid = prop.ID

    if args.replay:
        try:
            return do_replay(prop, args.replay)
        except Exception:
            traceback.print_exc()
            print("HARNESS-ERROR: replay failed")
            return 2

    budget = getattr(prop, "BUDGET", {"quick": 60, "thorough": 600})[args.tier]
    deadline = time.time() + budget
    try:
        specs = prop.shards(args.tier, seed)
        jobs = [(pid, fn, kw, deadline) for fn, kw in specs]
        total = Acc()
        ctx = mp.get_context("fork")
        nproc = max(1, min(args.procs, len(jobs)))
        errors = []
        with ctx.Pool(nproc, maxtasksperchild=None) as pool:
            for status, payload in pool.imap_unordered(_worker, jobs):
                if status == "ok":
                    total.merge(payload)
                elif status == "crash":
                    sig, case, detail = payload
                    total.fail(sig, case, detail)
                    total.evaluations += 1
                else:
                    errors.append(payload)
        if errors:
            print("HARNESS-ERROR: shard failed\n" + errors[0])
            return 2

        opens, fixed = load_known(pid)
        open_sigs = {e["signature"]: e for e in opens}
        known_seen = Counter()
        violations = []

        # 1. committed regression inputs and witnesses of fixed findings must pass;
        #    witnesses of open findings are re-observed (KNOWN-FINDING line).
        regress = []
        rdir = os.path.join(VERIF, "replays", pid)
        if os.path.isdir(rdir):
            for fn in sorted(os.listdir(rdir)):
                if fn.endswith(".json"):
                    with open(os.path.join(rdir, fn)) as f:
                        regress.append((os.path.join(rdir, fn), json.load(f)))
        n_regress = 0
        for path, rec in regress:
            r = prop.replay(rec["case"])
            n_regress += 1
            if r is not None:
                sig, detail = r
                if sig in open_sigs:
                    known_seen[sig] += 1
                else:
                    violations.append((sig, rec["case"], detail, path))
        for e in fixed:
            if "witness" in e:
                r = prop.replay(e["witness"])
                n_regress += 1
                if r is not None:
                    sig, detail = r
                    if sig in open_sigs:
                        known_seen[sig] += 1
                    else:
                        violations.append((sig, e["witness"], detail, None))
        for e in opens:
            if "witness" in e:
                r = prop.replay(e["witness"])
                n_regress += 1
                if r is not None:
                    sig, detail = r
                    if sig == e["signature"]:
                        known_seen[sig] += 1
                    elif sig in open_sigs:
                        known_seen[sig] += 1
                    else:
                        violations.append((sig, e["witness"], detail, None))

        # 2. decide every failure signature seen by the survey
        for sig, (cnt, cases) in sorted(total.failures.items()):
            if sig in open_sigs:
                known_seen[sig] += cnt
                continue
            size, case, detail = cases[0]
            violations.append((sig, case, detail, None))

        for sig, cnt in sorted(known_seen.items()):
            print(f"KNOWN-FINDING: property={pid} {open_sigs[sig]['what']} "
                  f"[signature={sig} observed={cnt}]")

        out_paths = []
        seen_sigs = set()
        for sig, case, detail, path in violations:
            if sig in seen_sigs:
                continue
            seen_sigs.add(sig)
            if path is None:
                small = shrink_failure(prop, sig, case)
                r = None
                try:
                    r = replay_case(prop, small)
                except Exception:
                    r = None
                if r is None or r[0] != sig:
                    small = case
                else:
                    detail = r[1]
                path = write_replay(pid, sig, small, detail, args.tier, seed)
            out_paths.append((sig, path, detail))

        wall = time.time() - t0
        # a bounded enumeration only counts as complete if no shard ran out of budget
        exhaustive = bool(getattr(prop, "EXHAUSTIVE", lambda t: False)(args.tier)) \
            and not total.notes.get("budget_exhausted")
        cov = dict(
            evaluations=total.evaluations,
            distinct_nontrivial=len(total.nontrivial),
            rule=prop.RULE,
            samples=total.samples[:10],
            classes=dict(sorted(total.classes.items())),
            regression_cases_replayed=n_regress,
            known_findings_observed={k: v for k, v in known_seen.items()},
            failure_signatures={s: c for s, (c, _) in total.failures.items()},
            shards=len(jobs),
            budget_s=budget,
            budget_exhausted=bool(total.notes.get("budget_exhausted")),
            exhaustive=exhaustive,
        )
        for k, v in total.notes.items():
            cov.setdefault("note_" + k, v)
        ev = dict(
            property_id=pid,
            tier=args.tier,
            seed=seed,
            level=prop.LEVEL,
            coverage=cov,
            assumptions=list(getattr(prop, "ASSUMPTIONS", [])),
            wall_s=round(wall, 2),
            violations=len(out_paths),
        )
        os.makedirs(os.path.join(VERIF, "evidence"), exist_ok=True)
        with open(os.path.join(VERIF, "evidence", pid + ".json"), "w") as f:
            json.dump(ev, f, indent=1, default=repr)

        print(f"{pid} tier={args.tier} seed={seed} evaluations="
              f"{total.evaluations} distinct_nontrivial={len(total.nontrivial)}"
              f" known={sum(known_seen.values())} violations={len(out_paths)}"
              f" wall={wall:.1f}s")
        if total.evaluations < 1 or len(total.nontrivial) < 2:
            print("HARNESS-ERROR: check explored (almost) nothing")
            return 2
        for sig, path, detail in out_paths:
            print(f"  signature={sig}: {str(detail)[:300]}")
            print(f"VIOLATION property={pid} replay={path}")
        return 1 if out_paths else 0
    except Exception:
        traceback.print_exc()
        print("HARNESS-ERROR: runner failed")
        return 2


if __name__ == "__main__":
    sys.exit(main())
