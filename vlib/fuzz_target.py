"""Generic atheris (libFuzzer) driver: coverage-guided bytes -> a property's own oracle.

Usage (from vlib.fuzzrun.atheris_shard):
    python -m vlib.fuzz_target <PID> <outdir> <corpusdir> [libFuzzer args]

The property module provides ``fuzz_one(data: bytes) -> (klass, failure)`` where klass is
a short string for the class histogram ("skip", "ok", ...) and failure is None or
(signature, JSON-able case, detail).  The semantic oracle therefore sits inside the
target.  Failures are appended to <outdir>/failures.jsonl (first one per signature) and
fuzzing continues (collect-then-decide); <outdir>/count.json holds the execution and
class counters.  pvl is imported under atheris instrumentation so libFuzzer sees its
coverage; the harness and Hypothesis are not instrumented.
"""
import importlib
import json
import os
import sys
from collections import Counter

import atheris

PID, OUT = sys.argv[1], sys.argv[2]
with atheris.instrument_imports(include=["pvl"]):
    import pvl  # noqa: F401
    import pvl.parser  # noqa: F401
    import pvl.lexer  # noqa: F401
    import pvl.decoder  # noqa: F401
    import pvl.encoder  # noqa: F401
    import pvl.collections  # noqa: F401
    import pvl.new  # noqa: F401

prop = importlib.import_module("props.c" + PID[1:].lower())

CLASSES = Counter()
SEEN = set()
N = [0]


def flush():
    with open(os.path.join(OUT, "count.json"), "w") as f:
        json.dump(dict(n=N[0], classes=dict(CLASSES)), f)


def TestOneInput(data):
    N[0] += 1
    klass, failure = prop.fuzz_one(bytes(data))
    CLASSES[klass] += 1
    if failure is not None and failure[0] not in SEEN:
        SEEN.add(failure[0])
        with open(os.path.join(OUT, "failures.jsonl"), "a") as f:
            f.write(json.dumps(dict(signature=failure[0], case=failure[1],
                                    detail=str(failure[2])[:2000]), default=repr) + "\n")
    if N[0] % 200 == 0:
        flush()


def main():
    argv = [sys.argv[0]] + sys.argv[3:]
    atheris.Setup(argv, TestOneInput)
    try:
        atheris.Fuzz()
    finally:
        flush()


if __name__ == "__main__":
    main()
