"""atheris (libFuzzer) target for C06: coverage-guided bytes -> (variant, text).

Usage (from props/c06.atheris_shard): python -m vlib.fuzz_c06 <outdir> <corpusdir> [libFuzzer args]
The semantic oracle is inside the target (vlib-free copy of C06's load()): a load
must return a module or raise LexerError/ParseError within the token-pull budget.
Failures are appended to <outdir>/failures.jsonl and fuzzing continues
(collect-then-decide); <outdir>/count holds the number of executions.
"""
import json
import os
import sys

import atheris

OUT = sys.argv[1]
with atheris.instrument_imports(include=["pvl"]):
    import pvl  # noqa: F401
    import pvl.parser  # noqa: F401
    import pvl.lexer  # noqa: F401
    import pvl.decoder  # noqa: F401

from props import c06  # noqa: E402
from vlib.dialects import PARSERS  # noqa: E402

COUNT = [0]
SEEN = set()


def TestOneInput(data):
    if len(data) < 2:
        return
    variant = PARSERS[data[0] % len(PARSERS)]
    try:
        text = data[1:].decode("utf-8", "surrogatepass")
    except UnicodeDecodeError:
        text = data[1:].decode("latin-1")
    COUNT[0] += 1
    r = c06.load(variant, text)
    if r[2] is not None and r[2] not in SEEN:
        SEEN.add(r[2])
        with open(os.path.join(OUT, "failures.jsonl"), "a") as f:
            f.write(json.dumps(dict(signature=r[2], variant=variant, text=text,
                                    detail=r[3])) + "\n")
    if COUNT[0] % 500 == 0:
        with open(os.path.join(OUT, "count"), "w") as f:
            f.write(f"{COUNT[0]} {sum(1 for _ in SEEN)}")


def main():
    argv = [sys.argv[0]] + sys.argv[2:]
    atheris.Setup(argv, TestOneInput)
    atheris.Fuzz()


if __name__ == "__main__":
    main()
