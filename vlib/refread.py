"""Independent recogniser/reader over token lists (no pvl code).

Written from the BNF of the two specifications (spec/*.txt):

    module     ::= statement* [ END ... ]
    statement  ::= assignment | block
    assignment ::= NAME '=' value [';']
    value      ::= (simple | set | sequence) [units]
    set        ::= '{' [ value (',' value)* ] '}'
    sequence   ::= '(' [ value (',' value)* ] ')'
    block      ::= BEGIN '=' NAME [';'] statement+ END_KW ['=' NAME] [';']

Tokens are the (text, kind, val) triples of vlib.gen_text.  The recogniser answers
    ("ok", tree)            well-formed up to END / end of tokens; canonical tree
    ("ill", reason, index)  ill-formed before END / end of tokens
    ("ambiguous", why)      the specifications and the library's documented
                            tolerances do not settle it -> the case is skipped
"""

ODL_FAMILY = ("ODL", "PDS3")
OMNI_PARSER = ("ISISv", "default")

BEGIN_KW = {"group": "end_group", "begin_group": "end_group",
            "object": "end_object", "begin_object": "end_object"}
ISIS_BEGIN_KW = {"group": "end_group", "object": "end_object"}
END_KW = {"end_group", "end_object"}
VALUE_KW = {"null", "true", "false"}


class Ill(Exception):
    def __init__(self, reason, index):
        self.reason = reason
        self.index = index


class Ambiguous(Exception):
    pass


def is_odl_identifier(s):
    if not s or not s.isascii():
        return False
    if not s[0].isalpha() or s.endswith("_"):
        return False
    return all(c.isalnum() or c == "_" for c in s)


class Reader:
    def __init__(self, tokens, d):
        self.t = tokens
        self.d = d
        self.i = 0
        self.begin_kw = ISIS_BEGIN_KW if d in ("ISIS", "ISISv") else BEGIN_KW
        self.tolerant = d in OMNI_PARSER
        self.empty_values = 0

    # -- token classification
    def peek(self, k=0):
        j = self.i + k
        return self.t[j] if j < len(self.t) else None

    def cls(self, tok):
        if tok is None:
            return "eof"
        text, kind = tok[0], tok[1]
        if kind in ("eq", "comma", "open", "close", "semi"):
            return text
        if kind == "quoted":
            return "quoted"
        if kind == "units":
            return "units"
        if kind == "broken":
            return "broken"
        if kind == "badunits":
            return "badunits"       # '<m<s>': a units delimiter inside units
        if kind == "badword":
            return "badword"        # 'foo*/': a comment delimiter inside a bare word
        if kind == "badchar":
            o = ord(text)
            if self.d == "default" and text == "\0":
                # OmniGrammar: "also add the ASCII NULL to the reserved characters" -
                # a token of its own that is neither a name nor a value
                return "badchar"
            if self.d == "default":
                raise Ambiguous("any character is allowed by the default grammar")
            if self.d in ODL_FAMILY and o < 128:
                raise Ambiguous("an ASCII control character is in ODL's character set")
            return "badchar"
        fold = text.casefold()
        if fold == "end":
            return "END"
        if fold in self.begin_kw:
            return "begin"
        if fold in BEGIN_KW:
            # BEGIN_ forms under the ISIS grammar: ISISGrammar keeps them in its
            # reserved words (so they are no names or values) and, as its
            # documentation says, does not recognise them as the start of a block
            return "reserved"
        if fold in END_KW:
            return "endkw"
        if fold in VALUE_KW:
            return "valuekw"
        val = tok[2]
        if val is not None and val[0] in ("int", "float", "date", "time", "dt"):
            return "valueonly"
        return "plain"

    def is_numeric(self, tok):
        return tok[2] is not None and tok[2][0] in ("int", "float")

    # -- grammar
    def module(self):
        items = self.statements(block=None)
        return ("mod", tuple(items))

    def statements(self, block):
        items = []
        while True:
            tok = self.peek()
            c = self.cls(tok)
            if c == "eof":
                if block is not None:
                    raise Ill("block-open-at-end-of-text", self.i)
                return items
            if c == "END":
                if block is not None:
                    raise Ill("block-open-at-END", self.i)
                return items
            if c == "endkw":
                if block is None:
                    raise Ill("end-keyword-without-block", self.i)
                return items
            if c == "begin":
                items.append(self.block())
            elif c == "plain":
                items.append(self.assignment())
            elif c == "valuekw":
                raise Ambiguous("NULL/TRUE/FALSE in statement position")
            else:
                raise Ill(f"stray-token:{self.kindname(c)}", self.i)

    def kindname(self, c):
        return {"=": "eq", ",": "comma", "(": "open", ")": "close", "{": "open",
                "}": "close", ";": "semi"}.get(c, c)

    def delimiter(self):
        if self.cls(self.peek()) == ";":
            self.i += 1

    def assignment(self):
        name = self.peek()[0]
        self.i += 1
        if self.cls(self.peek()) != "=":
            nxt = self.cls(self.peek())
            where = {"eof": "end-of-text", "END": "END"}.get(nxt, "other")
            raise Ill(f"name-without-equals-before-{where}", self.i)
        self.i += 1
        c = self.cls(self.peek())
        if self.tolerant and self.value_missing():
            self.empty_values += 1
            value = ("str", "")
        else:
            value = self.value()
        self.delimiter()
        return (name, value)

    def value_missing(self):
        """The single extra tolerance of the default loader (C08)."""
        c = self.cls(self.peek())
        if c in ("eof", ";", "END", "begin", "endkw"):
            return True
        if c == "plain" and self.cls(self.peek(1)) == "=":
            return True
        if c == "valuekw" and self.cls(self.peek(1)) == "=":
            # 'a = TRUE = 1': the value of a, or a parameter named TRUE after a missing
            # value?  The library reads the latter since b6a06e9 ('TRUE = 1' is an
            # assignment to every parser); the specifications do not settle it.
            raise Ambiguous("NULL/TRUE/FALSE followed by '=' after '='")
        return False

    def value(self):
        tok = self.peek()
        c = self.cls(tok)
        numeric = False
        if c in ("quoted", "valueonly", "valuekw"):
            self.i += 1
            v = tok[2]
            numeric = self.is_numeric(tok)
        elif c == "plain":
            if self.d in ODL_FAMILY and not is_odl_identifier(tok[0]):
                raise Ill("odl-unquoted-value-not-identifier", self.i)
            self.i += 1
            v = ("str", tok[0])
        elif c == "(":
            v = ("seq", tuple(self.elements("(", ")")))
        elif c == "{":
            elems = self.elements("{", "}")
            if any(not hashable(e) for e in elems):
                raise Ambiguous("set containing a sequence")
            from .gen_text import set_canon
            v = set_canon(elems)
        elif c == "eof":
            raise Ill("value-missing-at-end-of-text", self.i)
        else:
            raise Ill(f"value-expected-found:{self.kindname(c)}", self.i)
        if self.cls(self.peek()) == "units":
            if self.d in ODL_FAMILY and not numeric:
                raise Ill("odl-units-after-non-number", self.i)
            u = self.peek()[2]
            self.i += 1
            v = ("q", v, u)
        return v

    def elements(self, open_, close):
        start = self.i
        self.i += 1
        out = []
        if self.cls(self.peek()) == close:
            self.i += 1
            if self.d in ODL_FAMILY and open_ == "(":
                raise Ambiguous("empty ODL sequence")
            return out
        while True:
            if self.cls(self.peek()) == "eof":
                raise Ill("unterminated-set-or-sequence-at-end-of-text", start)
            out.append(self.value())
            c = self.cls(self.peek())
            if c == close:
                self.i += 1
                return out
            if c == ",":
                self.i += 1
                continue
            if c == "eof":
                raise Ill("unterminated-set-or-sequence-at-end-of-text", start)
            raise Ill(f"set-or-sequence-expected-comma-found:{self.kindname(c)}",
                      self.i)

    def block(self):
        begin = self.peek()[0].casefold()
        self.i += 1
        if self.cls(self.peek()) != "=":
            raise Ill("begin-keyword-without-equals", self.i)
        self.i += 1
        if self.cls(self.peek()) == "valuekw":
            raise Ambiguous("NULL/TRUE/FALSE as a block name")
        if self.cls(self.peek()) != "plain":
            raise Ill("block-name-expected", self.i)
        name = self.peek()[0]
        self.i += 1
        self.delimiter()
        items = self.statements(block=name)
        endtok = self.peek()
        if endtok[0].casefold() != self.begin_kw[begin]:
            raise Ill("end-keyword-does-not-pair", self.i)
        self.i += 1
        if self.cls(self.peek()) == "=":
            self.i += 1
            nt = self.peek()
            if self.cls(nt) not in ("plain",):
                raise Ill("end-block-name-expected", self.i)
            if nt[0] != name:
                if nt[0].casefold() == name.casefold():
                    raise Ambiguous("block names differ in letter case only")
                raise Ill("end-block-name-mismatch", self.i)
            self.i += 1
        self.delimiter()
        if not items:
            raise Ambiguous("empty block")
        kind = "grp" if "group" in begin else "obj"
        return (name, (kind, tuple(items)))


def hashable(c):
    if c[0] == "seq":
        return False
    if c[0] == "q":
        return hashable(c[1])
    if c[0] == "set":
        return all(hashable(i) for i in c[1])
    return True


def recognise(tokens, d):
    r = Reader(tokens, d)
    try:
        tree = r.module()
    except Ill as e:
        return ("ill", e.reason, e.index)
    except Ambiguous as e:
        return ("ambiguous", str(e))
    return ("ok", tree, r.empty_values)
