"""Library-free shrinking helpers (greedy delta debugging)."""


def shrink_seq(seq, pred, rebuild=None):
    """Greedy ddmin on a list/str: returns a shorter sequence for which
    pred(candidate) stays true.  *pred* may raise to abort (runner budget)."""
    is_str = isinstance(seq, str)
    cur = seq if is_str else list(seq)
    n = 2
    while len(cur) >= 1:
        chunk = max(1, len(cur) // n)
        reduced = False
        i = 0
        while i < len(cur):
            cand = cur[:i] + cur[i + chunk:]
            if len(cand) < len(cur) and pred(cand):
                cur = cand
                reduced = True
            else:
                i += chunk
        if not reduced:
            if chunk == 1:
                break
            n = min(len(cur), n * 2)
        else:
            n = max(2, n - 1)
    return cur


def shrink_text_case(case, still_fails, field="text"):
    best = dict(case)

    def pred(t):
        c = dict(best)
        c[field] = t
        return still_fails(c)

    # try lines first, then characters
    lines = best[field].split("\n")
    if len(lines) > 1:
        kept = shrink_seq(lines, lambda ls: pred("\n".join(ls)))
        best[field] = "\n".join(kept)
    if len(best[field]) <= 400:
        best[field] = shrink_seq(best[field], pred)
    return best
