"""Independent line-level reader of encoder output (no pvl code) for C12.

check(text, dialect, cfg) -> list of (rule, message).  *cfg* holds the effective
encoder options: indent, width, newline, end_delimiter, aggregation_end,
tab_replace.
"""
import re

WS = " \t\r\n\x0b\x0c"
RESERVED1 = "=,(){};"

KEYWORDS = {
    "PVL": ("BEGIN_GROUP", "END_GROUP", "BEGIN_OBJECT", "END_OBJECT"),
    "ODL": ("GROUP", "END_GROUP", "OBJECT", "END_OBJECT"),
    "PDS3": ("GROUP", "END_GROUP", "OBJECT", "END_OBJECT"),
    "ISIS": ("Group", "End_Group", "Object", "End_Object"),
}
ALL_BEGIN = {"group": "end_group", "begin_group": "end_group",
             "object": "end_object", "begin_object": "end_object"}

NUM_RE = re.compile(r"[+-]?([0-9]+\.?[0-9]*|\.[0-9]+)([eE][+-]?[0-9]+)?$")
BASED_RE = re.compile(r"[+-]?[0-9]+#[+-]?[0-9A-Fa-f]+#$")
ODL_NAME_RE = re.compile(
    r"\^?[A-Z]([A-Z0-9_]*[A-Z0-9])?(:[A-Z]([A-Z0-9_]*[A-Z0-9])?)?$")


def char_ok(c, dialect):
    o = ord(c)
    if dialect in ("ODL", "PDS3"):
        return o < 128
    return not (o > 255 or o <= 8 or 14 <= o <= 31 or 127 <= o <= 159)


class Tok:
    __slots__ = ("text", "kind", "pos", "end")

    def __init__(self, text, kind, pos, end):
        self.text, self.kind, self.pos, self.end = text, kind, pos, end


def scan(text):
    toks = []
    i, n = 0, len(text)
    while i < n:
        c = text[i]
        if c in WS:
            i += 1
        elif c in "\"'":
            j = text.find(c, i + 1)
            if j < 0:
                raise SurfaceError("unterminated-quote", f"at {i}")
            toks.append(Tok(text[i:j + 1], "quoted", i, j + 1))
            i = j + 1
        elif c == "<":
            j = text.find(">", i + 1)
            if j < 0:
                raise SurfaceError("unterminated-units", f"at {i}")
            toks.append(Tok(text[i:j + 1], "units", i, j + 1))
            i = j + 1
        elif c in RESERVED1:
            toks.append(Tok(c, c, i, i + 1))
            i += 1
        else:
            j = i
            while j < n and text[j] not in WS and text[j] not in RESERVED1 \
                    and text[j] not in "\"'<":
                j += 1
            toks.append(Tok(text[i:j], "word", i, j))
            i = j
    return toks


class SurfaceError(Exception):
    def __init__(self, rule, msg):
        self.rule, self.msg = rule, msg


class Statement:
    def __init__(self, kind, level, first, last, eq=None, name=None, parent=None):
        self.kind, self.level, self.first, self.last = kind, level, first, last
        self.eq, self.name, self.parent = eq, name, parent
        self.value_tokens = []
        self.delim = False


class Reader:
    def __init__(self, toks):
        self.t = toks
        self.i = 0
        self.statements = []
        self.block_id = 0

    def peek(self):
        return self.t[self.i] if self.i < len(self.t) else None

    def take(self, kind=None):
        tok = self.peek()
        if tok is None or (kind is not None and tok.kind != kind):
            raise SurfaceError("unparseable-output",
                               f"expected {kind} at token {self.i}: "
                               f"{tok.text if tok else 'EOF'!r}")
        self.i += 1
        return tok

    def delimiter(self, st):
        tok = self.peek()
        if tok is not None and tok.kind == ";":
            self.i += 1
            st.delim = True
            st.last = tok

    def module(self):
        self.body(0, None)
        tok = self.peek()
        if tok is None or tok.kind != "word" or tok.text.casefold() != "end":
            raise SurfaceError("no-final-END",
                               f"found {tok.text if tok else 'EOF'!r} at top level")
        self.i += 1
        st = Statement("end", 0, tok, tok)
        self.delimiter(st)
        self.statements.append(st)
        if self.peek() is not None:
            raise SurfaceError("text-after-END", repr(self.peek().text))

    def body(self, level, parent):
        while True:
            tok = self.peek()
            if tok is None:
                return
            if tok.kind != "word":
                raise SurfaceError("unparseable-output",
                                   f"statement cannot start with {tok.text!r}")
            fold = tok.text.casefold()
            if fold == "end" or fold in ("end_group", "end_object"):
                return
            if fold in ALL_BEGIN and self.i + 1 < len(self.t) \
                    and self.t[self.i + 1].kind == "=":
                self.block(level, parent)
            else:
                self.assignment(level, parent)

    def block(self, level, parent):
        begin = self.take("word")
        eq = self.take("=")
        name = self.take("word")
        st = Statement("begin", level, begin, name, eq, name.text, parent)
        self.delimiter(st)
        self.statements.append(st)
        self.block_id += 1
        me = self.block_id
        before = len(self.statements)
        self.body(level + 1, me)
        st.nstatements = len(self.statements) - before
        endtok = self.take("word")
        est = Statement("endblock", level, endtok, endtok, None, None, parent)
        est.begin = st
        tok = self.peek()
        if tok is not None and tok.kind == "=":
            est.eq = self.take("=")
            nm = self.take("word")
            est.name = nm.text
            est.last = nm
        self.delimiter(est)
        self.statements.append(est)

    def assignment(self, level, parent):
        name = self.take("word")
        eq = self.take("=")
        st = Statement("assign", level, name, eq, eq, name.text, parent)
        start = self.i
        self.value()
        st.value_tokens = self.t[start:self.i]
        st.last = self.t[self.i - 1]
        self.delimiter(st)
        self.statements.append(st)

    def value(self):
        tok = self.peek()
        if tok is None:
            raise SurfaceError("unparseable-output", "value missing at end")
        if tok.kind in ("word", "quoted"):
            self.i += 1
        elif tok.kind in "({":
            close = ")" if tok.kind == "(" else "}"
            self.i += 1
            if self.peek() is not None and self.peek().kind == close:
                self.i += 1
            else:
                while True:
                    self.value()
                    nxt = self.take()
                    if nxt.kind == close:
                        break
                    if nxt.kind != ",":
                        raise SurfaceError("unparseable-output",
                                           f"expected ',' found {nxt.text!r}")
        else:
            raise SurfaceError("unparseable-output",
                               f"value cannot start with {tok.text!r}")
        nxt = self.peek()
        if nxt is not None and nxt.kind == "units":
            self.i += 1


def line_start(text, pos):
    """Index just after the last CR or LF before pos."""
    j = pos
    while j > 0 and text[j - 1] not in "\r\n":
        j -= 1
    return j


def line_end(text, pos):
    j = pos
    while j < len(text) and text[j] not in "\r\n":
        j += 1
    return j


def check(text, dialect, cfg):
    """Returns a list of (rule, message); empty = conforms."""
    out = []
    newline = cfg["newline"]
    indent = cfg["indent"]
    width = cfg["width"]

    for i, c in enumerate(text):
        if not char_ok(c, dialect):
            out.append(("character-set", f"U+{ord(c):04X} at {i}"))
            break
    if dialect == "PDS3" and cfg.get("tab_replace", 4) > 0 and "\t" in text:
        out.append(("tab-in-pds3", f"TAB at {text.index(chr(9))}"))

    try:
        toks = scan(text)
        rd = Reader(toks)
        rd.module()
    except SurfaceError as e:
        out.append((e.rule, e.msg))
        return out

    # line ends: outside quoted strings only the configured newline may occur
    # string content is user data; so is the inside of a units expression for PVL and
    # ISIS (any characters), but not for ODL/PDS3, whose units are identifiers and
    # operators and whose line ends the property fixes as CR LF
    user_kinds = ("quoted",) if dialect in ("ODL", "PDS3") else ("quoted", "units")
    quoted_spans = [(t.pos, t.end) for t in toks if t.kind in user_kinds]
    masked = list(text)
    user_newlines = 0
    for a, b in quoted_spans:
        for k in range(a, b):
            if masked[k] in "\r\n":
                masked[k] = " "
                user_newlines += 1
    outside = "".join(masked)
    stripped = outside.replace(newline, "")
    if "\n" in stripped or "\r" in stripped:
        k = next(i for i, c in enumerate(stripped) if c in "\r\n")
        out.append(("line-end", f"a line break other than {newline!r} outside "
                                f"quoted strings near {stripped[max(0, k - 20):k + 5]!r}"))
    if dialect in ("ODL", "PDS3"):
        if not text.endswith("END" + (";" if cfg["end_delimiter"] else "") + newline):
            out.append(("final-END-line", f"text ends with {text[-12:]!r}"))
        for t in toks:
            if t.kind == "quoted" and t.text[0] == "'" and \
                    any(c in t.text for c in "\r\n\x0b\x0c"):
                out.append(("symbol-string-multiline", repr(t.text[:60])))
                break
    else:
        if not text.rstrip("\r\n").endswith("END" + (";" if cfg["end_delimiter"] else "")):
            out.append(("final-END", f"text ends with {text[-12:]!r}"))

    kw = KEYWORDS[dialect]
    groups = {}
    for st in rd.statements:
        ls = line_start(text, st.first.pos)
        lead = text[ls:st.first.pos]
        if lead != " " * (indent * st.level):
            out.append(("indentation",
                        f"{st.kind} statement {st.first.text!r} at level {st.level} "
                        f"is preceded on its line by {lead!r}, expected "
                        f"{indent * st.level} blanks"))
            break
        if st.delim != bool(cfg["end_delimiter"]):
            out.append(("statement-delimiter",
                        f"{st.kind} statement {st.first.text!r}: delimiter present="
                        f"{st.delim}, end_delimiter={cfg['end_delimiter']}"))
            break
        if st.kind == "begin":
            if st.first.text not in (kw[0], kw[2]):
                out.append(("begin-keyword", f"{st.first.text!r} not in {kw}"))
                break
        elif st.kind == "endblock":
            want = kw[1] if st.begin.first.text.casefold().endswith("group") else kw[3]
            if st.first.text != want:
                out.append(("end-keyword", f"{st.first.text!r} closes "
                                           f"{st.begin.first.text!r}, expected {want!r}"))
                break
            if cfg["aggregation_end"]:
                if st.name != st.begin.name:
                    out.append(("end-block-name",
                                f"{st.first.text} carries {st.name!r}, block is "
                                f"{st.begin.name!r}"))
                    break
            elif st.name is not None:
                out.append(("end-block-name",
                            "block name written although aggregation_end=False"))
                break
        elif st.kind == "end":
            if st.first.text != "END":
                out.append(("end-statement", repr(st.first.text)))
                break
        elif st.kind == "assign":
            if dialect in ("ODL", "PDS3"):
                if not ODL_NAME_RE.match(st.name) or len(st.name) > 30:
                    out.append(("odl-parameter-name", repr(st.name)))
                    break
                vt = st.value_tokens
                for k, t in enumerate(vt):
                    if t.kind == "units":
                        prev = vt[k - 1] if k else None
                        if prev is None or prev.kind != "word" or not (
                                NUM_RE.match(prev.text) or BASED_RE.match(prev.text)):
                            out.append(("odl-units-after-non-number",
                                        f"{prev.text if prev else None!r} {t.text!r}"))
                            break
            # alignment of '=' among sibling one-line assignments that fit
            le = line_end(text, st.first.pos)
            one_line = le >= st.last.end
            col = st.eq.pos - ls
            groups.setdefault((st.parent, st.level), []).append(
                (col, st.name, (le - ls) + len(newline), one_line))
    for key, members in groups.items():
        # The common column is one blank after the longest sibling name.  A
        # statement is subject to the rule if it occupies one line and still fits
        # in *width* once its '=' stands in that column.
        target = indent * key[1] + max(len(n) for _, n, _, _ in members) + 1
        cols = [(c, n) for c, n, length, one_line in members
                if one_line and length + (target - c) <= width]
        if len({c for c, _ in cols}) > 1:
            out.append(("equals-alignment",
                        f"sibling one-line assignments have '=' in columns {cols} "
                        f"although each fits in width {width} when aligned"))
            break
    return out
