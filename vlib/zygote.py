"""A pristine process image for history properties.

Zygote("props.c13:run_case") starts one child that imports the named module (and
through it pvl and the harness) and does nothing else; run(arg) forks that child and
evaluates the function in the fork, so that whatever the function does is the first
thing the library does in its process.  State that the library keeps on classes or
modules (and that no amount of "fresh instances" in a long-lived worker can escape)
cannot leak from one evaluation into the next.

Results travel as pickles over pipes; an exception of the function itself is a harness
error (RuntimeError in the parent), never a verdict.
"""
import os
import pickle
import subprocess
import sys


class Zygote:
    def __init__(self, target):
        self.proc = subprocess.Popen(
            [sys.executable, "-c",
             "from vlib import zygote; zygote.main(%r)" % target],
            stdin=subprocess.PIPE, stdout=subprocess.PIPE)

    def run(self, arg):
        pickle.dump(arg, self.proc.stdin)
        self.proc.stdin.flush()
        res = pickle.load(self.proc.stdout)
        if isinstance(res, tuple) and res and res[0] == "zygote-harness-error":
            raise RuntimeError("zygote: " + res[1])
        return res

    def close(self):
        try:
            self.proc.stdin.close()
            self.proc.wait(timeout=30)
        except Exception:
            self.proc.kill()

    def __enter__(self):
        return self

    def __exit__(self, *exc):
        self.close()


def main(target):
    import importlib
    modname, fname = target.split(":")
    fn = getattr(importlib.import_module(modname), fname)
    inp = sys.stdin.buffer
    out = os.fdopen(os.dup(1), "wb")
    os.dup2(2, 1)               # nothing the function prints can reach the result pipe
    while True:
        try:
            arg = pickle.load(inp)
        except EOFError:
            break
        r, w = os.pipe()
        pid = os.fork()
        if pid == 0:
            os.close(r)
            try:
                res = fn(arg)
            except BaseException as e:          # noqa: B902 - reported, not hidden
                res = ("zygote-harness-error", f"{type(e).__name__}: {e}")
            try:
                data = pickle.dumps(res)
            except Exception as e:
                data = pickle.dumps(("zygote-harness-error", f"unpicklable: {e}"))
            with os.fdopen(w, "wb") as f:
                f.write(data)
            os._exit(0)
        os.close(w)
        with os.fdopen(r, "rb") as f:
            data = f.read()
        os.waitpid(pid, 0)
        res = pickle.loads(data) if data else \
            ("zygote-harness-error", "child wrote nothing")
        pickle.dump(res, out)
        out.flush()
