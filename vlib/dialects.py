"""The fixed vocabulary of parser and encoder configurations (DESIGN 2.2)."""
import pvl
from pvl.grammar import (PVLGrammar, ODLGrammar, PDSGrammar, ISISGrammar,
                         OmniGrammar)
from pvl.decoder import PVLDecoder, ODLDecoder, PDSLabelDecoder, OmniDecoder
from pvl.parser import PVLParser, ODLParser, OmniParser
from pvl.encoder import PVLEncoder, ODLEncoder, PDSLabelEncoder, ISISEncoder

from .budget import counting_lexer

PARSERS = ("PVL", "ODL", "PDS3", "ISIS", "ISISv", "default")
STRICT = ("PVL", "ODL", "PDS3")
ENCODERS = ("PVL", "ODL", "PDS3", "ISIS")
ODL_FAMILY = ("ODL", "PDS3")
OMNI_PARSER = ("ISISv", "default")        # OmniParser based (dash rewrite, repairs)
FOLDING = ("ODL", "PDS3", "ISISv", "default")   # ODL-family string folding
HASH_COMMENT = ("ISIS", "ISISv", "default")


def grammar_decoder(name, **deckw):
    if name == "PVL":
        g = PVLGrammar()
        return g, PVLDecoder(g, **deckw)
    if name == "ODL":
        g = ODLGrammar()
        return g, ODLDecoder(g, **deckw)
    if name == "PDS3":
        g = PDSGrammar()
        return g, PDSLabelDecoder(g, **deckw)
    if name == "ISIS":
        g = ISISGrammar()
        return g, PVLDecoder(g, **deckw)
    if name == "ISISv":
        g = ISISGrammar()
        return g, OmniDecoder(g, **deckw)
    if name == "default":
        g = OmniGrammar()
        return g, OmniDecoder(g, **deckw)
    raise KeyError(name)


def make_parser(name, lexer_fn=None, deckw=None, **kw):
    g, d = grammar_decoder(name, **(deckw or {}))
    cls = {"PVL": PVLParser, "ODL": ODLParser, "PDS3": ODLParser,
           "ISIS": PVLParser, "ISISv": OmniParser, "default": OmniParser}[name]
    return cls(g, d, lexer_fn=lexer_fn, **kw)


def budget_parser(name, **kw):
    """Parser whose lexer counts pulls; ``p.lexer.stats`` has the counters."""
    return make_parser(name, lexer_fn=counting_lexer(), **kw)


def make_encoder(name, **cfg):
    cls = {"PVL": PVLEncoder, "ODL": ODLEncoder, "PDS3": PDSLabelEncoder,
           "ISIS": ISISEncoder}[name]
    return cls(**cfg)


# strict reader of the same dialect for each encoder (C01)
STRICT_READER = {"PVL": "PVL", "ODL": "ODL", "PDS3": "PDS3", "ISIS": "ISIS"}


def loads_budget(text, name="default", **kw):
    p = budget_parser(name, **kw)
    return p.parse(text), p
