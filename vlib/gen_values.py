"""Object-side generators: JSON-able *specs* of modules, built into fresh pvl
objects on demand (so no clone/deepcopy of library objects is ever needed).

spec of a value:
    None | bool | int | float | str            native
    {"date": [y, m, d]}
    {"time": [h, m, s, us, tz]}                 tz: None (naive) | offset minutes
    {"dt":   [y, mo, d, h, mi, s, us, tz]}
    {"q":    [valuespec, units]}
    {"seq":  [valuespec...]}   {"set": [valuespec...]}
    {"grp":  [[key, valuespec]...]}   {"obj": [...]}
module spec: [[key, valuespec], ...]
"""
import datetime as dtm
import functools

from hypothesis import strategies as st

ODL_FAMILY = ("ODL", "PDS3")

KEYWORD_LIKE = ["NULL", "Null", "null", "TRUE", "true", "False", "FALSE",
                "END", "end", "End", "GROUP", "Group", "OBJECT", "object",
                "END_GROUP", "End_Object", "BEGIN_OBJECT", "begin_group",
                "END_OBJECT", "BEGIN_GROUP"]
NUMBER_LIKE = ["1", "-1", "+1", "1.5", "1e5", "1E-5", ".5", "5.", "inf", "nan",
               "Infinity", "-inf", "1_0", "1__0", "2#101#", "16#FF#", "-2#1#",
               "2#-1#", "+", "-", ".", "0x10", "1d5", "١٢"]
DATE_LIKE = ["2001-01-01", "2001-366", "2001-001", "12:00", "12:00:60",
             "2001-01-01T12:00", "12:00:00.5Z", "12:00Z", "2001-01", "1:00",
             "2001-01-01T12:00:60", "12:00+01", "12:00-07:30", "2001-01-01Z"]
SPECIAL = ["\xa0" + "x" * 30, "y" * 30 + "\xa0", "\xa0z" * 12, 'say "hi"\n', '"q"\r\n', 'a"b\n', '\n"x"', 'two "q"\n\n', 'tab"\x0b',
           "", " ", "  ", "a b", " lead", "trail ", "a  b", "a\tb", "a\nb",
           "a\r\nb", "a-\nb", "a -\n b", "a-\r\n b", "a-\n\n  b", "pre-\r\n\r\n post", "it's", 'say "hi"', "both ' and \"",
           "/* c */", "a/*b", "*/", "# hash", "a#b", "a=b", "a;b", "a,b", "(a)",
           "{a}", "<m>", "a&b", "a+b", "+a", "a-b", "a-", "-", "--", "a_", "_a",
           "a.b", "a:b", "^ptr", "a%b", "a~b", "a|b", "a!b", "[a]", "\\n",
           "N/A", "km/s", "UNK", "x" * 45, "word " * 25, "w-" * 30,
           "ends with dash -", "dash- mid", "tab\there", "é", "µm", "\x0b", "\f"]
# words that only *begin* like a keyword, file names and the like (round 5)
KEYWORD_PREFIXED = ["end.cub", "group.lis", "END-TO-END", "Object/default.pvl",
                    "end-member", "end:1", "END_GROUPS", "null.dat", "true.x", "NULL-1",
                    "False_color", "ENDURANCE", "Group2", "begin_object.txt", "end;",
                    "END=", "object(1)", "true/false", "null,void"]
# string content that looks like label text: lines that are only a keyword or a statement
LABEL_LIKE = ["from the start to the\nEND\nof the mapping phase.", "x\nEND_GROUP\ny",
              "a\nGROUP = g\nb", "l1\nEnd\n", "text\nEND;\nmore", "q\n  end  \nr",
              "first\r\nEND\r\nlast", "k = v\nb = 2", "see\nEnd_Object = o\nbelow",
              "tail\nEND", "END\nhead", "/* not a\ncomment */ x", "# not a comment\nx",
              "a # b -\nc", "rule -----\nnext", "# ---- geometry ----", "x #3 is -\n broken"]
# longer than any buffer or limit a lexer might have (4 kB)
LONG = ["word " * 900, "x" * 4100, ("line one\n" * 500), "y" * 4095, "z" * 4096,
        "w" * 4097, "ab " * 1366,
        # longer than 64 KiB (one string value is one lexeme to a lexer)
        "word " * 14000, "x" * 66000, "line\n" * 30000]
HAZARD_STRINGS = KEYWORD_LIKE + NUMBER_LIKE + DATE_LIKE + SPECIAL + KEYWORD_PREFIXED + \
    LABEL_LIKE

PVL_CHARS = "".join(chr(c) for c in range(256)
                    if not (c <= 8 or 14 <= c <= 31 or 127 <= c <= 159))
ASCII_CHARS = "".join(chr(c) for c in range(32, 127)) + "\t\n\r\x0b\x0c"


def charset(dialect):
    return ASCII_CHARS if dialect in ODL_FAMILY else PVL_CHARS


@functools.lru_cache(maxsize=None)
def strings(dialect):
    cs = charset(dialect)
    ok = lambda s: all(c in cs for c in s)
    pool = [s for s in HAZARD_STRINGS if ok(s)]
    # every lexeme of C17's curated list as a string *value*: whatever a decoder
    # could take for a number, date, keyword or delimiter has to be quoted
    from props import c17
    lexemes = sorted({s for s in c17.CURATED if ok(s)} - set(pool))
    words = st.lists(st.sampled_from(["alpha", "beta", "x", "A1", "foo_bar", "-",
                                      "1", "N/A", "the", "quick-brown", "a,b"]),
                     min_size=1, max_size=30).map(" ".join)
    # sentences in which many words end in a dash: wherever a long statement is
    # wrapped, the break may fall right after one of them (also after the first)
    dashy = st.lists(st.sampled_from(["pre-", "post-", "-", "2-", "alpha", "beta", "x-",
                                      "long-word-", "N/A", "end-", "a", "xxxxxxxxxxxx-",
                                      "--", "-x"]),
                     min_size=3, max_size=22)
    seps = st.lists(st.sampled_from([" ", " ", " ", "  ", "\t", " \t", "   "]),
                    min_size=22, max_size=22)
    dashy = st.tuples(dashy, seps).map(
        lambda t: "".join(w + s for w, s in zip(t[0], t[1])).rstrip(" \t"))
    longs = st.sampled_from([s for s in LONG if ok(s)])
    # strings with a character the dialect cannot write at all: the encoder has to refuse
    # (mostly characters that another dialect can write, so that the same process may
    # well have written them a moment ago)
    outside = st.sampled_from([s for s in ["caf\u00e9", "5 \u00b5m", "30\u00b0", "\u00e9",
                                           "\u00b5m", "ma\u00f1ana", "caf\u00e9", "\u00b5m",
                                           "\x01", "a\x07b", "\u03b1", "\u2028", "\x7f",
                                           "x\x85y", "\U0001F600"]
                               if not ok(s)])
    return st.one_of(
        st.sampled_from(pool),
        st.sampled_from(pool),
        st.sampled_from(lexemes),
        st.integers(0, 19).flatmap(lambda k: longs if k == 0 else st.sampled_from(pool)),
        st.integers(0, 39).flatmap(lambda k: outside if k == 0 else st.sampled_from(pool)),
        dashy,
        st.text(alphabet=cs, max_size=12),
        st.text(alphabet="abAB01_-+.:#/ '\"\n\t", max_size=8),
        words,
        st.tuples(st.sampled_from(pool), st.sampled_from(pool)).map(
            lambda t: t[0] + " " + t[1]),
    )


IDENT_HEAD = "abcXYZ"
IDENT_BODY = "abXY019_"


@functools.lru_cache(maxsize=None)
def identifiers(max_len=12):
    return st.builds(
        lambda h, b, t: (h + b + t).rstrip("_"),
        st.sampled_from(IDENT_HEAD),
        st.text(alphabet=IDENT_BODY, max_size=max_len - 2),
        st.sampled_from(["", "a", "Z", "9"]),
    )


@functools.lru_cache(maxsize=None)
def names(dialect):
    base = identifiers()
    opts = [base, base, st.sampled_from(["a", "b", "key", "Key", "KEY"]),
            base.map(lambda s: "^" + s),
            st.tuples(base, base).map(lambda t: (t[0] + ":" + t[1])[:30])]
    # names around the 30-character limit of ODL keywords (29..33 characters)
    opts.append(st.integers(29, 33).map(lambda n: ("LONG_NAME_" * 4)[:n - 1] + "Z"))
    opts.append(st.integers(29, 32).map(lambda n: "NS:" + ("ELEMENT_" * 4)[:n - 4] + "9"))
    if dialect not in ODL_FAMILY:
        opts.append(st.tuples(base, st.sampled_from(["-", ".", "/", "$", "@"]),
                              base).map("".join))
    opts.append(st.integers(0, 2).flatmap(
        lambda k: near_miss_names() if k == 0 else base))
    return st.one_of(*opts)


# names no dialect can write as they are (an encoder has to refuse them) and names
# only some dialects can write; used with a low weight for keys and block names
NEAR_MISS_NAMES = ["abc\n", "abc ", " abc", "a b", "abc\r\n", "abc_", "1abc", "", "end",
                   "END", "End", "group", "OBJECT", "end_group", "a=b", "a;b", "a#b",
                   "a\tb", "12:00", "1", "-1", "1.5", "2001-01-01", "-", "x-", "/*a", "a*/",
                   "null", "TRUE", "false", "a,b", "(a)", "{a", "<a>", "'a'", '"a"', "a'b",
                   "mro:orbit\n", "^image\n", "mro\n:orbit", "^", "a:", ":a", "a:b:c",
                   "A:B:C", "MRO:CTX:LINE_SAMPLES", "^HIRISE:CCD:TABLE", "ns:el:x", "a::b",
                   "16#FF#", "+", "+a", "a&b", "\xa0a", "a\x0b", "é",
                   # names only the permissive loader takes for a date/time
                   "12:00+01", "2001-01-01T12:00:00-05", "12:00-05", "10:30-07:30"]


@functools.lru_cache(maxsize=None)
def near_miss_names():
    return st.sampled_from(NEAR_MISS_NAMES)


@functools.lru_cache(maxsize=None)
def block_names():
    return st.one_of(identifiers(), st.sampled_from(["g", "obj", "Image", "IMAGE"]),
                     st.sampled_from(["g", "G", "x-", "a.b", "blk-1"]),
                     # names that contain a block keyword of some dialect
                     st.sampled_from(["BAND_GROUP", "SUBGROUP_1", "DATA_OBJECT", "GroupA",
                                      "ObjectStore", "OLD_BEGIN_GROUP", "IMAGE_OBJECT",
                                      "MY_END_OBJECT", "Group_Object", "ENDGROUP"]),
                     st.integers(0, 7).flatmap(
                         lambda k: near_miss_names() if k == 0 else identifiers()))


@functools.lru_cache(maxsize=None)
def ints():
    return st.one_of(st.integers(-1000, 1000), st.sampled_from(
        [0, 1, -1, 2 ** 31, -2 ** 63, 2 ** 64, 10 ** 40, -10 ** 25,
         # beyond what a C double holds (float(n) overflows), exact as Python ints
         2 ** 1024, -(10 ** 309), 10 ** 400 + 7, 2 ** 1023]),
        st.integers(-10 ** 20, 10 ** 20))


@functools.lru_cache(maxsize=None)
def floats():
    return st.one_of(
        st.floats(allow_nan=False, allow_infinity=False),
        st.sampled_from([0.0, -0.0, 1.0, -1.5, 1e300, 1e-300, 5e-324, 1e16, 1e-5,
                         123456.789, 0.1, 1e22, 1.7976931348623157e308]),
        st.floats(min_value=-1e6, max_value=1e6, allow_nan=False),
    )


TZ_MINUTES = [None, 0, 60, -60, 330, -210, 720, -720, 45, -900, 570, 765, -765, 750,
              -30]
# "rule": a tzinfo whose offset depends on the date (zoneinfo / dateutil style): -04:00 from
# April to October, -05:00 otherwise, and *no* offset for a time of day without a date
RULE_TZ = "rule"


def rule_offset_minutes(month):
    return -240 if 4 <= month <= 10 else -300


class RuleTz(dtm.tzinfo):
    def utcoffset(self, dt):
        if dt is None:
            return None
        return dtm.timedelta(minutes=rule_offset_minutes(dt.month))

    def dst(self, dt):
        if dt is None:
            return None
        return dtm.timedelta(hours=1 if 4 <= dt.month <= 10 else 0)

    def tzname(self, dt):
        return "RULE"

    def __repr__(self):
        return "RuleTz()"

    def __reduce__(self):
        return (RuleTz, ())


@functools.lru_cache(maxsize=None)
def tzs(dialect=None):
    if dialect == "ODL":
        # ODL refuses naive times: keep them rare so that zoned ones get written
        return st.sampled_from(TZ_MINUTES[1:] * 4 + [None, RULE_TZ, RULE_TZ])
    return st.sampled_from(TZ_MINUTES + [RULE_TZ])


@functools.lru_cache(maxsize=None)
def micro():
    return st.sampled_from([0, 0, 500000, 4000, 123000, 1000, 999000, 1, 123456,
                            999999, 100])


@functools.lru_cache(maxsize=None)
def dates():
    return st.dates(min_value=dtm.date(1, 1, 1), max_value=dtm.date(9999, 12, 31)).map(
        lambda d: {"date": [d.year, d.month, d.day]})


@functools.lru_cache(maxsize=None)
def times(dialect=None):
    return st.builds(lambda h, m, s, us, tz: {"time": [h, m, s, us, tz]},
                     st.integers(0, 23), st.integers(0, 59),
                     st.sampled_from([0, 0, 0, 1, 30, 59]), micro(), tzs(dialect))


@functools.lru_cache(maxsize=None)
def datetimes(dialect=None):
    return st.builds(
        lambda d, t: {"dt": d["date"] + t["time"]},
        st.one_of(dates(), st.sampled_from([{"date": [2001, 1, 1]},
                                            {"date": [999, 12, 31]},
                                            {"date": [1, 1, 1]}])),
        times(dialect))


ODL_UNITS = ["m", "KM", "m/s", "km**2", "m*s**-1", "deg", "pixel", "m/s/s",
             "kg*m**2", "DEGREES", "W/(m**2)", "km\t/ s", "m /\ts", "m / s"]
PVL_UNITS = ODL_UNITS + ["m s", "km per s", "%", "a.b", "deg C", "1/s", "µm",
                         "m^2", "'", "it's", "a=b", "(", "#", "m\n/s", "", "m>", "<m",
                         "a -\n b", "/* c */", "x # y", " m ", "m ", "\tm", "m\n", "\xa0m",
                         # edges that are white space for Python, not for the grammar
                         "m\xa0", "\xa0%", "deg\xa0", "\xa0", "m\x85"]


@functools.lru_cache(maxsize=None)
def units(dialect):
    if dialect in ODL_FAMILY:
        return st.sampled_from(ODL_UNITS + [" m ", "m ", "\tm", "m s", "bad unit!", "3m", "m**x", "m\n/s",
                                            "m\r\n/s", "km /\x0cs", "", " ", "m>", "<m",
                                            # ASCII separators: white space for Python only
                                            "m\x1c", "\x1fm", "\x1dkm\x1e", "\x1c"])
    return st.sampled_from(PVL_UNITS)


@functools.lru_cache(maxsize=None)
def scalars(dialect):
    return st.one_of(
        st.none(), st.booleans(), ints(), floats(), strings(dialect),
        strings(dialect), dates(), times(dialect), datetimes(dialect))


@functools.lru_cache(maxsize=None)
def quantities(dialect, inner):
    num = st.one_of(ints(), floats())
    if dialect in ODL_FAMILY:
        seq1 = st.lists(num, min_size=1, max_size=3).map(lambda l: {"seq": l})
        seq2 = st.lists(seq1, min_size=1, max_size=3).map(lambda l: {"seq": l})
        val = st.one_of(num, num, num, strings(dialect),
                        st.sampled_from([True, False, None, {"date": [2001, 1, 1]}]),
                        seq1, seq2)
    else:
        val = st.one_of(num, num, scalars(dialect), inner)
    return st.tuples(val, units(dialect)).map(lambda t: {"q": [t[0], t[1]]})


def hashable_spec(v):
    if isinstance(v, dict):
        if "seq" in v or "grp" in v or "obj" in v:
            return False
        if "set" in v:
            return all(hashable_spec(i) for i in v["set"])
        if "q" in v:
            return hashable_spec(v["q"][0])
    return True


@functools.lru_cache(maxsize=None)
def values(dialect):
    sc = scalars(dialect)

    def extend(children):
        seq = st.lists(children, max_size=6).map(lambda l: {"seq": l})
        sets = st.lists(children.filter(hashable_spec), max_size=5).map(
            lambda l: {"set": l})
        return st.one_of(seq, sets, quantities(dialect, children))

    base = st.one_of(sc, sc, quantities(dialect, sc))
    longseq = st.lists(strings(dialect), min_size=5, max_size=14).map(
        lambda l: {"seq": l})
    # long sequences and sets of numbers with units that contain blanks (no quote
    # character anywhere): when such a statement is wrapped, the only places where the
    # line must not break are inside the units expressions
    spaced = st.sampled_from(["W / m**2 / sr", "m / s", "km / s / s", "deg / pixel",
                              "m /\ts", "kg * m**2"])
    qnum = st.tuples(st.one_of(st.integers(-999, 10 ** 6),
                               st.floats(-1e6, 1e6, allow_nan=False)), spaced).map(
        lambda t: {"q": [t[0], t[1]]})
    longq = st.lists(qnum, min_size=4, max_size=12).map(lambda l: {"seq": l})
    return st.one_of(st.recursive(base, extend, max_leaves=10), longseq,
                     st.integers(0, 2).flatmap(lambda k: longq if k == 0 else longseq))


@functools.lru_cache(maxsize=None)
def module_items(dialect, depth=0):
    key = names(dialect)
    val = values(dialect)
    if depth < 2:
        block = st.tuples(block_names(),
                          st.deferred(lambda: blocks(dialect, depth + 1)))
        item = st.one_of(st.tuples(key, val), st.tuples(key, val),
                         st.tuples(key, val), block)
    else:
        item = st.tuples(key, val)

    def dup(items):
        return items

    @st.composite
    def with_dups(draw):
        items = draw(st.lists(item, min_size=0 if depth == 0 else 1, max_size=7))
        items = [list(i) for i in items]
        if items and draw(st.integers(0, 9)) < 3:
            i = draw(st.integers(0, len(items) - 1))
            j = draw(st.integers(0, len(items)))
            newval = draw(st.one_of(st.just(items[i][1]), val))
            if isinstance(items[i][1], dict) and ("grp" in items[i][1] or
                                                  "obj" in items[i][1]):
                if draw(st.booleans()):
                    newval = items[i][1]
                else:
                    # an assignment that has the name of a block (INSTRUMENT = HIRISE
                    # next to OBJECT = INSTRUMENT), before or after it
                    newval = draw(st.sampled_from([1, "HIRISE", 2.5, "two words"]))
            items.insert(j, [items[i][0], newval])
        if items and draw(st.integers(0, 7)) == 0:
            # a parameter whose *name* is spelled exactly like one of the module's string
            # values (TRUE, N/A, a file name ...), written after it - and once before it
            strs = [v for _, v in items if isinstance(v, str) and v and len(v) < 30]
            if strs:
                v = draw(st.sampled_from(strs))
                items.append([v, draw(st.sampled_from([1, "x", v]))])
                if draw(st.booleans()):
                    items.insert(0, [v, 2])
        return items

    return with_dups()


@functools.lru_cache(maxsize=None)
def blocks(dialect, depth):
    return st.tuples(st.sampled_from(["grp", "grp", "obj"]),
                     module_items(dialect, depth)).map(lambda t: {t[0]: t[1]})


@functools.lru_cache(maxsize=None)
def modules(dialect):
    return module_items(dialect, 0)


# ---------------------------------------------------------------- building
def tzinfo_of(tz):
    if tz is None:
        return None
    if tz == RULE_TZ:
        return RuleTz()
    if tz == 0:
        return dtm.timezone.utc
    return dtm.timezone(dtm.timedelta(minutes=tz))


def build_value(v, grpcls=None, objcls=None):
    from pvl.collections import PVLGroup, PVLObject, Quantity
    grpcls = grpcls or PVLGroup
    objcls = objcls or PVLObject
    if isinstance(v, dict):
        if "date" in v:
            return dtm.date(*v["date"])
        if "time" in v:
            h, m, s, us, tz = v["time"]
            return dtm.time(h, m, s, us, tzinfo=tzinfo_of(tz))
        if "dt" in v:
            y, mo, d, h, mi, s, us, tz = v["dt"]
            return dtm.datetime(y, mo, d, h, mi, s, us, tzinfo=tzinfo_of(tz))
        if "dec" in v:
            from decimal import Decimal
            return Decimal(v["dec"])
        if "q" in v:
            return Quantity(build_value(v["q"][0], grpcls, objcls), v["q"][1])
        if "seq" in v:
            return [build_value(i, grpcls, objcls) for i in v["seq"]]
        if "set" in v:
            return frozenset(build_value(i, grpcls, objcls) for i in v["set"])
        if "grp" in v:
            return grpcls([(k, build_value(x, grpcls, objcls)) for k, x in v["grp"]])
        if "obj" in v:
            return objcls([(k, build_value(x, grpcls, objcls)) for k, x in v["obj"]])
        raise ValueError(v)
    return v


def build_module(spec, modcls=None, grpcls=None, objcls=None):
    from pvl.collections import PVLModule
    modcls = modcls or PVLModule
    return modcls([(k, build_value(v, grpcls, objcls)) for k, v in spec])


def walk_values(spec):
    """Yields every value spec in a module spec (depth first)."""
    for k, v in spec:
        yield from _walk(v)


def _walk(v):
    yield v
    if isinstance(v, dict):
        if "q" in v:
            yield from _walk(v["q"][0])
        for tag in ("seq", "set"):
            if tag in v:
                for i in v[tag]:
                    yield from _walk(i)
        for tag in ("grp", "obj"):
            if tag in v:
                for k, x in v[tag]:
                    yield from _walk(x)


def kind(v):
    if v is None:
        return "none"
    if isinstance(v, bool):
        return "bool"
    if isinstance(v, int):
        return "int"
    if isinstance(v, float):
        return "float"
    if isinstance(v, str):
        return "str"
    return next(iter(v))
