"""Text-side generator: abstract documents -> token lists -> text, together with
the *expected* tree computed by the generator itself (never by calling pvl).

A token is (text, kind); kinds:
    word   parameter/block names, keywords, numbers, dates, unquoted strings
    eq  comma  open  close  semi      the single reserved characters
    quoted  units
The expected tree is in vlib.normalise's canonical form.
"""
import datetime as dtm
import functools

from hypothesis import strategies as st

from . import normalise as nm

ODL_FAMILY = ("ODL", "PDS3")
OMNI_PARSER = ("ISISv", "default")
FOLDING = ("ODL", "PDS3", "ISISv", "default")
PLUS_OK = ("ISIS", "ISISv", "default")          # '+' is not reserved
HASH_COMMENT = ("ISIS", "ISISv", "default")
DEFAULT_UTC = ("PVL", "PDS3", "ISIS", "ISISv", "default")

PVL_CHARS = "".join(chr(c) for c in range(256)
                    if not (c <= 8 or 14 <= c <= 31 or 127 <= c <= 159))
ASCII_CHARS = "".join(chr(c) for c in range(32, 127)) + "\t\n\r\x0b\x0c"


def charset(d):
    if d in ODL_FAMILY:
        return ASCII_CHARS
    if d == "default":
        return PVL_CHARS + "α☃\U0001F600"
    return PVL_CHARS


def norm_for_reader(d):
    return nm.Norm(upper_names=False, folding=d in FOLDING,
                   default_utc=d in DEFAULT_UTC, omni=d in OMNI_PARSER)


# ------------------------------------------------------------------ scalars
def cases(word):
    return st.sampled_from(sorted({word.upper(), word.lower(), word.title(),
                                   word.swapcase() if word != word.upper()
                                   else word.capitalize()}))


@functools.lru_cache(maxsize=None)
def mixed_case(word):
    return st.lists(st.booleans(), min_size=len(word), max_size=len(word)).map(
        lambda bs: "".join(c.upper() if b else c.lower()
                           for c, b in zip(word, bs)))


@functools.lru_cache(maxsize=None)
def keywords():
    return st.one_of(
        mixed_case("null").map(lambda t: (t, ("none",))),
        mixed_case("true").map(lambda t: (t, ("bool", True))),
        mixed_case("false").map(lambda t: (t, ("bool", False))),
    )


DIGITS = "0123456789ABCDEF"


@functools.lru_cache(maxsize=None)
def dec_ints(d):
    sign = st.sampled_from(["", "", "-", "+"])
    digs = st.one_of(st.integers(0, 10 ** 6).map(str),
                     st.sampled_from(["0", "00", "007", "10", "123456789012345678901"]))
    return st.tuples(sign, digs).map(
        lambda t: (t[0] + t[1], ("int", int(t[0] + t[1]))))


@functools.lru_cache(maxsize=None)
def based_ints(d):
    if d in ("PVL", "ISIS", "ISISv"):
        radix = st.sampled_from([2, 8, 16])
        pos = st.just("pvl")
    elif d in ODL_FAMILY:
        radix = st.integers(2, 16)
        pos = st.just("odl")
    else:
        radix = st.integers(2, 16)
        pos = st.sampled_from(["pvl", "odl"])

    @st.composite
    def go(draw):
        r = draw(radix)
        p = draw(pos)
        n = draw(st.integers(1, 6))
        digs = "".join(draw(st.sampled_from(DIGITS[:r])) for _ in range(n))
        if draw(st.booleans()):
            digs = digs.lower()
        sign = draw(st.sampled_from(["", "", "-", "+"]))
        val = int(sign + digs, r)
        if p == "pvl":
            return (f"{sign}{r}#{digs}#", ("int", val))
        return (f"{r}#{sign}{digs}#", ("int", val))

    return go()


@functools.lru_cache(maxsize=None)
def reals(d):
    @st.composite
    def go(draw):
        sign = draw(st.sampled_from(["", "", "-", "+"]))
        form = draw(st.sampled_from(["d.d", "d.", ".d", "d.de", "de", ".de", "d.e"]))
        ip = draw(st.sampled_from(["0", "1", "12", "007", "123456", "9"]))
        fp = draw(st.sampled_from(["0", "5", "25", "000", "123456789", "50"]))
        e = draw(st.sampled_from(["e", "E"])) + draw(st.sampled_from(["", "+", "-"])) \
            + draw(st.sampled_from(["0", "1", "5", "05", "10", "30", "30", "400", "999"]))
        body = {"d.d": f"{ip}.{fp}", "d.": f"{ip}.", ".d": f".{fp}",
                "d.de": f"{ip}.{fp}{e}", "de": f"{ip}{e}", ".de": f".{fp}{e}",
                "d.e": f"{ip}.{e}"}[form]
        text = sign + body
        return (text, ("float", float(text).hex()))

    return go()


IDENT_START = "abcXYZ"
IDENT_MID = "abXY019_"


@functools.lru_cache(maxsize=None)
def identifiers(maxlen=12):
    return st.builds(lambda a, b, c: (a + b + c).rstrip("_"),
                     st.sampled_from(IDENT_START),
                     st.text(alphabet=IDENT_MID, max_size=maxlen - 2),
                     st.sampled_from(["", "a", "Z", "7"]))


RESERVED_WORDS = {"end", "group", "object", "end_group", "end_object",
                  "begin_group", "begin_object", "null", "true", "false"}


def not_reserved(s):
    return s.casefold() not in RESERVED_WORDS


@functools.lru_cache(maxsize=None)
def unquoted_strings(d):
    ident = st.one_of(identifiers().filter(not_reserved),
                      st.sampled_from(["ENDURANCE", "Group2", "NULLS", "TRUEX", "end_groups",
                                       "Objects", "falsey", "ENDS", "begin_objects"]))
    if d in ODL_FAMILY:
        return ident.map(lambda s: (s, ("str", s)))
    extra = ["a.b", "N/A", "x-y", "foo:bar", "a_b_", "_a", "$x", "@home", "a^b",
             "path/to/file.img", "x.y.z", "a-b-c", "A.", "km/s", "a\\b", "`q`",
             "é", "x?", "*x", "a*b", "**x", "end.cub", "group.lis", "END-TO-END",
             "Object/default.pvl", "end-member", "end:1", "null.dat", "true.x", "NULL-1",
             "False_color", "begin_object.txt", "end.", "END_"]
    if d in PLUS_OK:
        extra += ["a+b", "x+", "C++"]
    if d == "default":
        extra += ["αβ", "naïve"]
    # words over the unrestricted characters: a letter first (so it cannot be a
    # number or a date), no comment delimiter, no dash at the end
    free = st.builds(lambda a, b: a + b, st.sampled_from("abXY"),
                     st.text(alphabet="abXY019_.:/$@?^`\\-", max_size=9)).filter(
        lambda w: not w.endswith("-") and "//" not in w and not_reserved(w))
    return st.one_of(ident, ident, st.sampled_from(extra), free).map(
        lambda s: (s, ("str", s)))


@functools.lru_cache(maxsize=None)
def quoted_strings(d):
    cs = charset(d)
    n = norm_for_reader(d)
    pool = ["", " ", "a b", "  two  spaces  ", "line1\nline2", "cr\r\nlf",
            "tab\there", "/* not a comment */", "# not a comment", "a = b",
            "(1, 2)", "{x}", "<m>", "END", "end_group", "NULL", "123", "1.5",
            "2001-01-01", "semi;colon", "it's", 'say "hi"', "dash-\n   cont", "dash-\r\n   cont", "a-\n\n b", "x-\r\ny",
            "pre-\r\n\r\n  post", "a - b", "trailing-", "x" * 90, "&", "+", "a\x0bb", "a\x0cb",
            "-\n", "END\n", "=", ",",
            # content that looks like label text (lines that are only a keyword or a
            # statement), '#' on dash-continued lines, rules of dashes (round 5)
            "from the start to the\nEND\nof the phase", "x\nEND_GROUP\ny",
            "a\nGROUP = g\nb", "l1\nEnd\n", "text\nEND;\nmore", "q\n  end  \nr",
            "first\r\nEND\r\nlast", "k = v\nb = 2", "tail\nEND", "END\nhead",
            "Filter #3 is -\n   broken", "a # b -\r\n c", "Sample #2 of the north-\nern",
            "# ---- geometry ----", "rule -----\nnext", "end.cub", "END-TO-END",
            # every reserved word and value keyword, in several letter cases
            "BEGIN_GROUP", "begin_object", "Begin_Group", "BEGIN_OBJECT", "GROUP", "Object",
            "End_Object", "END_GROUP", "end", "End", "true", "False", "null", "Null",
            "{}", "{0}", "%s"]
    pool = [s for s in pool if all(c in cs for c in s)]
    longs = [s for s in ["x" * 4100, "word " * 900, "y" * 4094, "z" * 4095, "w" * 4096,
                         "line one\n" * 450] if all(c in cs for c in s)]
    # every lexeme of C17's curated list as the content of a quoted string
    from props import c17
    lexemes = sorted({s for s in c17.CURATED if s and all(c in cs for c in s)}
                     - set(pool))
    dashy = st.lists(st.sampled_from(["pre-", "post-", "-", "2-", "alpha", "beta", "x-",
                                      "long-word-", "N/A", "end-", "a", "xxxxxxxxxxxx-",
                                      "--", "-x"]),
                     min_size=3, max_size=22)
    seps = st.lists(st.sampled_from([" ", " ", " ", "  ", "\t", " \t", "   "]),
                    min_size=22, max_size=22)
    dashy = st.tuples(dashy, seps).map(
        lambda t: "".join(w + s for w, s in zip(t[0], t[1])).rstrip(" \t"))
    content = st.one_of(st.sampled_from(pool), st.sampled_from(lexemes),
                        st.integers(0, 29).flatmap(
                            lambda k: st.sampled_from(longs if k == 0 else pool)),
                        st.text(alphabet=cs, max_size=15),
                        st.text(alphabet="ab \n\t-#/*=;'\"", max_size=10), dashy)

    @st.composite
    def go(draw):
        s = draw(content)
        qs = [q for q in "\"'" if q not in s]
        if not qs:
            s = s.replace("'", "")
            qs = ["'"]
        q = draw(st.sampled_from(qs))
        return (q + s + q, ("str", n.string(s)))

    return go()


def _tz(z, d):
    """z in '', 'Z', or ODL offset text; returns off_min or None."""
    if z == "Z":
        return 0
    if z == "":
        return None
    sign = -1 if z[0] == "-" else 1
    body = z[1:]
    if ":" in body:
        h, m = body.split(":")
    else:
        h, m = body, "0"
    return sign * (int(h) * 60 + int(m))


@functools.lru_cache(maxsize=None)
def temporals(d):
    default_utc = d in DEFAULT_UTC

    @st.composite
    def go(draw):
        kind = draw(st.sampled_from(["date", "doy", "time", "dt", "dtdoy"]))
        y = draw(st.sampled_from([1, 999, 1000, 1999, 2000, 2024, 9999]))
        date = draw(st.dates(dtm.date(y, 1, 1), dtm.date(y, 12, 31)))
        h, m, s = draw(st.one_of(st.integers(0, 23), st.sampled_from([0, 23]))), \
            draw(st.one_of(st.integers(0, 59), st.sampled_from([0, 59]))), \
            draw(st.one_of(st.integers(0, 59), st.sampled_from([0, 0, 59])))
        tform = draw(st.sampled_from(["hm", "hms", "hmsf"]))
        frac = draw(st.sampled_from(["5", "25", "123", "000", "100"]))
        if d in ("ODL", "ISISv", "default"):
            z = draw(st.sampled_from(["", "Z", "+07", "-5", "+05:30", "-12", "+0",
                                      "-03:30", "-00:45", "-09:30", "+12:45", "-0:30"]))
        else:
            z = draw(st.sampled_from(["", "Z"]))
        us = 0
        if tform == "hm":
            ttext, s = f"{h:02d}:{m:02d}", 0
        elif tform == "hms":
            ttext = f"{h:02d}:{m:02d}:{s:02d}"
        else:
            ttext = f"{h:02d}:{m:02d}:{s:02d}.{frac}"
            us = int(frac.ljust(6, "0"))
        dtext = (f"{date.year:04d}-{date.month:02d}-{date.day:02d}"
                 if kind in ("date", "dt")
                 else f"{date.year:04d}-{date.timetuple().tm_yday:03d}")
        if kind in ("date", "doy"):
            return (dtext, ("date", date.toordinal()))
        off = _tz(z, d)
        if kind == "time":
            return (ttext + z, nm.canon_time(h, m, s, us, off, default_utc))
        return (dtext + "T" + ttext + z,
                nm.canon_dt(date.year, date.month, date.day, h, m, s, us, off,
                            default_utc))

    return go()


@functools.lru_cache(maxsize=None)
def units_texts(d):
    if d in ODL_FAMILY:
        return st.sampled_from(["m", "KM", "m/s", "km**2", "m*s**-1", "DEGREES",
                                "W/(m**2)", "pixel", "m\ts", "km /\ts"])
    return st.sampled_from(["m", "KM", "m/s", "km**2", "deg C", "m s", "%", "1/s",
                            "a.b", "W / m**2", "it's", "#", "/*x*/", "=", "(", ";"])


# ------------------------------------------------------------------- values
def T(text, kind="word", val=None):
    """A token: (text, kind, val).  val is the expected canonical value of a
    value token, the units string of a units token, else None."""
    return (text, kind, val)


@functools.lru_cache(maxsize=None)
def simple_values(d, numeric_only=False):
    """Strategy of (tokens, expected canon, is_numeric)."""
    nums = st.one_of(dec_ints(d), dec_ints(d), based_ints(d), reals(d), reals(d))
    numv = nums.map(lambda t: ([T(t[0], "word", t[1])], t[1], True))
    if numeric_only:
        return numv
    others = st.one_of(
        keywords().map(lambda t: ([T(t[0], "word", t[1])], t[1], False)),
        unquoted_strings(d).map(lambda t: ([T(t[0], "word", t[1])], t[1], False)),
        quoted_strings(d).map(lambda t: ([T(t[0], "quoted", t[1])], t[1], False)),
        quoted_strings(d).map(lambda t: ([T(t[0], "quoted", t[1])], t[1], False)),
        temporals(d).map(lambda t: ([T(t[0], "word", t[1])], t[1], False)),
    )
    return st.one_of(numv, numv, others, others)


@functools.lru_cache(maxsize=None)
def with_units(d, val):
    """val: strategy of (tokens, canon, is_numeric) -> maybe add units."""
    @st.composite
    def go(draw):
        toks, canon, isnum = draw(val)
        allowed = isnum or d not in ODL_FAMILY
        if allowed and draw(st.integers(0, 9)) < 3:
            u = draw(units_texts(d))
            pad = draw(st.sampled_from(["", "", " ", "  ", "\t"]))
            toks = toks + [T("<" + pad + u + pad + ">", "units", u)]
            canon = ("q", canon, u)
        return (toks, canon, False)

    return go()


def pykey(c):
    """Python-equality key of a canonical value (for set de-duplication)."""
    k = c[0]
    if k == "none":
        return None
    if k in ("bool", "int"):
        return c[1]
    if k == "float":
        return float.fromhex(c[1])
    if k == "q":
        return (pykey(c[1]), c[2])
    if k == "set":
        return frozenset(pykey(i) for i in c[1])
    if k == "seq":
        return tuple(pykey(i) for i in c[1])
    return c


def set_canon(elems):
    kept = {}
    for c in elems:
        kept.setdefault(pykey(c), c)
    return ("set", frozenset(kept.values()))


def hashable(c):
    if c[0] == "seq":
        return False
    if c[0] == "q":
        return hashable(c[1])
    if c[0] == "set":
        return all(hashable(i) for i in c[1])
    return True


def join_items(items, open_, close):
    toks = [T(open_, "open")]
    for i, it in enumerate(items):
        if i:
            toks.append(T(",", "comma"))
        toks += it
    toks.append(T(close, "close"))
    return toks


@functools.lru_cache(maxsize=None)
def values(d):
    """Strategy of (tokens, canon)."""
    scalar = with_units(d, simple_values(d))
    if d in ODL_FAMILY:
        s2 = scalar.map(lambda t: (t[0], t[1]))
        seq1 = st.lists(s2, min_size=1, max_size=5).map(
            lambda l: (join_items([x[0] for x in l], "(", ")"),
                       ("seq", tuple(x[1] for x in l))))
        seq2 = st.lists(seq1, min_size=1, max_size=3).map(
            lambda l: (join_items([x[0] for x in l], "(", ")"),
                       ("seq", tuple(x[1] for x in l))))
        sets = st.lists(s2.filter(lambda t: hashable(t[1])), min_size=1,
                        max_size=4).map(
            lambda l: (join_items([x[0] for x in l], "{", "}"),
                       set_canon([x[1] for x in l])))
        return st.one_of(s2, s2, s2, seq1, seq2, sets)

    base = scalar.map(lambda t: (t[0], t[1]))

    def extend(children):
        seq = st.lists(children, max_size=4).map(
            lambda l: (join_items([x[0] for x in l], "(", ")"),
                       ("seq", tuple(x[1] for x in l))))
        sets = st.lists(children.filter(lambda t: hashable(t[1])), max_size=4).map(
            lambda l: (join_items([x[0] for x in l], "{", "}"),
                       set_canon([x[1] for x in l])))

        @st.composite
        def unit_on_agg(draw):
            toks, canon = draw(st.one_of(seq, sets))
            if draw(st.integers(0, 9)) < 2:
                u = draw(units_texts(d))
                return (toks + [T("<" + u + ">", "units", u)], ("q", canon, u))
            return (toks, canon)

        return unit_on_agg()

    return st.recursive(base, extend, max_leaves=8)


# --------------------------------------------------------------- statements
@functools.lru_cache(maxsize=None)
def param_names(d):
    ident = identifiers().filter(not_reserved)
    opts = [ident, ident, ident.map(lambda s: "^" + s),
            st.tuples(ident, ident).map(lambda t: t[0] + ":" + t[1]),
            st.sampled_from(["a", "A", "k", "K", "Key", "KEY"])]
    if d not in ODL_FAMILY:
        opts.append(st.sampled_from(["a.b", "x/y", "long-name", "$v", "k@1", "*x", "a*b"]))
    if d == "default":
        # names beyond Latin-1, some of them not in Unicode NFC
        opts.append(st.sampled_from(["Tempe\u0301rature", "R_\u2126", "a\u030a", "\u212b",
                                     "\u03b1\u03b2", "nai\u0308ve"]))
    return st.one_of(*opts)


BLOCK_KW = {
    "grp": [("GROUP", "END_GROUP"), ("BEGIN_GROUP", "END_GROUP")],
    "obj": [("OBJECT", "END_OBJECT"), ("BEGIN_OBJECT", "END_OBJECT")],
}


@functools.lru_cache(maxsize=None)
def statements(d, depth=0):
    @st.composite
    def assignment(draw):
        name = draw(param_names(d))
        toks, canon = draw(values(d))
        out = [T(name), T("=", "eq")] + toks
        if draw(st.integers(0, 9)) < 3:
            out.append(T(";", "semi"))
        return (out, (name, canon))

    @st.composite
    def block(draw):
        kind = draw(st.sampled_from(["grp", "obj"]))
        pairs = BLOCK_KW[kind]
        if d in ("ISIS", "ISISv"):
            pairs = pairs[:1]
        b, e = draw(st.sampled_from(pairs))
        b = draw(mixed_case(b))
        e = draw(mixed_case(e))
        name = draw(st.one_of(identifiers().filter(not_reserved), identifiers().filter(
            not_reserved), st.sampled_from(["BAND_GROUP", "DATA_OBJECT", "GroupA",
                                            "ObjectStore", "SUBGROUP_1", "IMAGE_OBJECT"])))
        body = draw(st.lists(statements(d, depth + 1), min_size=1, max_size=4))
        out = [T(b), T("=", "eq"), T(name)]
        if draw(st.integers(0, 9)) < 2:
            out.append(T(";", "semi"))
        items = []
        for toks, item in body:
            out += toks
            items.append(item)
        out.append(T(e))
        if draw(st.booleans()):
            out += [T("=", "eq"), T(name)]
        if draw(st.integers(0, 9)) < 2:
            out.append(T(";", "semi"))
        return (out, (name, (kind, tuple(items))))

    if depth >= 2:
        return assignment()
    return st.one_of(assignment(), assignment(), assignment(), block())


@st.composite
def documents(draw, d, min_statements=0):
    """Returns dict(tokens=[(text, kind)...], expected=canon, tail=str)."""
    stmts = draw(st.lists(statements(d), min_size=min_statements, max_size=6))
    toks, items = [], []
    for t, item in stmts:
        toks += t
        items.append(item)
    tail = ""
    if draw(st.integers(0, 9)) < 7:
        toks.append(T(draw(mixed_case("end")), "end"))
        if draw(st.integers(0, 9)) < 3:
            toks.append(T(";", "semi"))
        if draw(st.integers(0, 9)) < 4:
            tail = draw(st.sampled_from([
                "\n", " junk = (unbalanced", "\n\x00\x01\x02binary",
                "\n= = = ;", "\r\n/* open comment", ' "open quote',
                "\nGROUP = x", " <"]))
            if d in ODL_FAMILY or d in ("PVL", "ISIS", "ISISv"):
                tail = "".join(c for c in tail if c in charset(d))
    return dict(tokens=toks, expected=("mod", tuple(items)), tail=tail)


# ------------------------------------------------------------------ layouts
WORDLIKE = ("word", "quoted", "units", "end")


def gap_required(prev, nxt):
    """True if white space is *required* between two adjacent tokens."""
    pk, nk = prev[1], nxt[1]
    if pk in WORDLIKE and nk in WORDLIKE:
        # value followed by its units expression: optional
        if nk == "units":
            return False
        return True
    return False


def canonical_text(doc):
    """The reference layout: tokens separated by single blanks."""
    text = " ".join(t[0] for t in doc["tokens"])
    if doc["tail"]:
        text += doc["tail"] if doc["tail"][0] in " \n\r" else " " + doc["tail"]
    return text


WS_CHARS = [" ", " ", " ", "\t", "\n", "\n", "\r\n", "\r", "\x0b", "\x0c"]


def separators(d, required, allow_hash=True):
    """Strategy for the text between two tokens."""
    ws = st.lists(st.sampled_from(WS_CHARS), min_size=1, max_size=4).map("".join)
    cbody = st.one_of(
        st.sampled_from(["", " c ", "x=1;", " END ", "'", '"', " ( { < ",
                         " # ", "\n multi\n line ", "*", "/", " * / "]),
        st.text(alphabet="ab =;'\"#(){}<>,\n*/", max_size=10))
    ccomment = cbody.map(lambda b: "/*" + b.replace("*/", "* /").replace("/*", "/ *")
                         + "*/")
    parts = [ws, ws, ccomment]
    if d in HASH_COMMENT and allow_hash:
        hbody = st.one_of(st.text(alphabet="ab =;'\"(){}<>,*#-", max_size=10),
                          st.sampled_from([" ---", "-", " x-", " a - b -"]))
        parts.append(st.tuples(ws, hbody).map(lambda t: t[0] + "#" + t[1] + "\n"))

    run = st.lists(st.one_of(*parts), min_size=1, max_size=3).map("".join)
    if required:
        return run
    return st.one_of(st.just(""), st.just(""), st.just(" "), run)


@st.composite
def layouts(draw, d, doc):
    """Draws one concrete text for the document's token list."""
    toks = doc["tokens"]
    out = [draw(separators(d, False))] if toks else []
    for i, t in enumerate(toks):
        if i:
            out.append(draw(separators(d, gap_required(toks[i - 1], t))))
        out.append(t[0])
    text = "".join(out)
    if toks and toks[-1][1] in ("end", "semi") and doc["tail"]:
        tail = doc["tail"]
        text += tail if tail[0] in " \n\r" else " " + tail
    else:
        text += draw(separators(d, False))
    return text


# ---------------------------------------------------- cheap seeded layouts
import random as _random

_WS_LIGHT = [" ", " ", "  ", "\t", "\n", "\r\n", "\n  ", " \n"]
_WS_ALL = [" ", "\t", "\n", "\r\n", "\r", "\x0b", "\x0c"]
_C_BODIES = ["", " c ", "x=1;", " END ", "'", '"', " ( { < ", " # ", "\n multi\n line ",
             " * ", " a/b ", "= =", "END_GROUP", ";", ",", "-", " - \n x", "'\"",
             " GROUP = g ", "<m>", "/", "*", "**", " a/", "* x *", "//", " see http://x/",
             "\nEND\n", " release #4 -\n notes ", "\n a = 1\n END\n", " x " * 1400,
             " # ---- x ----\n", "\r\nEnd_Group\r\n"]
_H_BODIES = ["", " c", "x=1;", " END", "'", '"', " ( { <", " #", " a * b", "= =",
             " GROUP = g", ";;", "<m>", " it's", ' say "hi', " a/*b", " */", " x /* y */",
             " a//b", " ----------", "-", " see x-", " - ", " a -\t",
             " ---- geometry ----", " END", " /* -", "#-", " y" * 2100,
             # comments that end in something a value could end in
             " set at 12:30", " 23:59:59.5", " t=1:02", " 2001-01-01", " 1.5e", " 16#FF",
             " x <m>", " 2#1", ' "', " a =", " ("]


def _sep(rng, d, required, mode):
    """mode: 'light' (white space only) | 'full' (white space and comments)."""
    if not required and rng.random() < 0.45:
        return ""
    if mode == "light":
        return rng.choice(_WS_LIGHT)
    parts = []
    for _ in range(rng.choice([1, 1, 1, 2, 3])):
        r = rng.random()
        if r < 0.55:
            parts.append("".join(rng.choice(_WS_ALL)
                                 for _ in range(rng.choice([1, 1, 2, 3]))))
        elif r < 0.85 or d not in HASH_COMMENT:
            parts.append("/*" + rng.choice(_C_BODIES) + "*/")
        else:
            parts.append(rng.choice(_WS_ALL[:3]) + "#" + rng.choice(_H_BODIES) + "\n")
    return "".join(parts)


def seeded_layout(doc, d, seed, mode="light"):
    rng = _random.Random(seed)
    toks = doc["tokens"]
    out = [_sep(rng, d, False, mode)] if toks else []
    for i, t in enumerate(toks):
        if i:
            out.append(_sep(rng, d, gap_required(toks[i - 1], t), mode))
        out.append(t[0])
    text = "".join(out)
    if toks and toks[-1][1] in ("end", "semi") and doc["tail"]:
        tail = doc["tail"]
        text += tail if tail[0] in " \n\r" else " " + tail
    else:
        text += _sep(rng, d, False, mode)
        if mode == "full" and d in HASH_COMMENT and rng.random() < 0.15:
            # a '#' comment that runs to the end of the text (no final LF)
            text += " #" + rng.choice(_H_BODIES)
    return text


# ------------------------------------------- structured documents (C08, C18)
@functools.lru_cache(maxsize=None)
def stmt_nodes(d, depth=0):
    """Like statements(), but returns nodes:
       ("assign", name, value_tokens, canon, semi)
       ("block", kind, begin_kw, end_kw, name, body_nodes, end_named, semi1, semi2)
    """
    @st.composite
    def assignment(draw):
        name = draw(param_names(d))
        toks, canon = draw(values(d))
        return ("assign", name, toks, canon, draw(st.integers(0, 9)) < 3)

    @st.composite
    def block(draw):
        kind = draw(st.sampled_from(["grp", "obj"]))
        pairs = BLOCK_KW[kind]
        if d in ("ISIS", "ISISv"):
            pairs = pairs[:1]
        b, e = draw(st.sampled_from(pairs))
        b = draw(mixed_case(b))
        e = draw(mixed_case(e))
        name = draw(identifiers().filter(not_reserved))
        body = draw(st.lists(stmt_nodes(d, depth + 1), min_size=1, max_size=4))
        return ("block", kind, b, e, name, body, draw(st.booleans()),
                draw(st.integers(0, 9)) < 2, draw(st.integers(0, 9)) < 2)

    if depth >= 2:
        return assignment()
    return st.one_of(assignment(), assignment(), assignment(), block())


def count_assignments(nodes):
    n = 0
    for nd in nodes:
        if nd[0] == "assign":
            n += 1
        else:
            n += count_assignments(nd[5])
    return n


def flatten_nodes(nodes, gaps=frozenset(), counter=None):
    """Returns (tokens, items, gap_eq_token_indices).  *gaps* is a set of
    assignment ordinals (document order) whose value (and units) is removed."""
    if counter is None:
        counter = [0]
    toks, items, gap_eqs = [], [], []
    for nd in nodes:
        if nd[0] == "assign":
            _, name, vtoks, canon, semi = nd
            k = counter[0]
            counter[0] += 1
            toks += [T(name), T("=", "eq")]
            if k in gaps:
                gap_eqs.append(len(toks) - 1)
                items.append((name, ("str", "")))
            else:
                toks += vtoks
                items.append((name, canon))
            if semi:
                toks.append(T(";", "semi"))
        else:
            _, kind, b, e, name, body, end_named, semi1, semi2 = nd
            toks += [T(b), T("=", "eq"), T(name)]
            if semi1:
                toks.append(T(";", "semi"))
            off = len(toks)
            t2, i2, g2 = flatten_nodes(body, gaps, counter)
            toks += t2
            gap_eqs += [off + g for g in g2]
            toks.append(T(e))
            if end_named:
                toks += [T("=", "eq"), T(name)]
            if semi2:
                toks.append(T(";", "semi"))
            items.append((name, (kind, tuple(i2))))
    return toks, items, gap_eqs


def layout_with_positions(toks, d, seed, mode="full", final=""):
    """Seeded layout; returns (text, start index of every token)."""
    rng = _random.Random(seed)
    out, pos, n = [], [], 0
    lead = _sep(rng, d, False, mode) if toks else ""
    out.append(lead)
    n += len(lead)
    for i, t in enumerate(toks):
        if i:
            sp = _sep(rng, d, gap_required(toks[i - 1], t), mode)
            out.append(sp)
            n += len(sp)
        pos.append(n)
        out.append(t[0])
        n += len(t[0])
    out.append(final)
    return "".join(out), pos
