"""Token-pull budget: turns "the parser spins" into a deterministic verdict.

The wrapper is handed to parsers through their public ``lexer_fn`` parameter.
It counts next()/send() calls on the token generator and raises
BudgetExceeded (a BaseException, so ``except Exception: pass`` in the parser
cannot swallow it) past the budget.  It also records the largest start
position of any token handed out (C09: nothing is requested past END).
"""
import signal
from contextlib import contextmanager

import pvl.lexer


class BudgetExceeded(BaseException):
    pass


class WallClockBackstop(BaseException):
    pass


class CountingTokens:
    def __init__(self, gen, budget, stats):
        self.gen = gen
        self.budget = budget
        self.stats = stats

    def __iter__(self):
        return self

    def _tick(self):
        self.stats["pulls"] += 1
        if self.stats["pulls"] > self.budget:
            raise BudgetExceeded(self.stats["pulls"])

    def __next__(self):
        self._tick()
        t = next(self.gen)
        if t is not None:
            self.stats["tokens"] += 1
            p = getattr(t, "pos", None)
            if p is not None and p > self.stats["maxpos"]:
                self.stats["maxpos"] = p
                self.stats["maxtok"] = str(t)[:40]
            if p is not None and p > self.stats.get("maxpos_all", -1):
                # over every token generator made from this lexer_fn (a parser may
                # lex the text more than once, e.g. in a pre-pass)
                self.stats["maxpos_all"] = p
                self.stats["maxtok_all"] = str(t)[:40]
        return t

    def send(self, v):
        self._tick()
        return self.gen.send(v)

    def throw(self, *a):
        return self.gen.throw(*a)

    def close(self):
        return self.gen.close()


def new_stats():
    return dict(pulls=0, tokens=0, maxpos=-1, maxtok=None)


def counting_lexer(stats=None, factor=60, floor=2000):
    """Returns a lexer_fn.  Budget = factor * len(text) + floor pulls."""
    if stats is None:
        stats = new_stats()

    def fn(s, g=None, d=None):
        keep = {k: stats[k] for k in ("maxpos_all", "maxtok_all") if k in stats}
        stats.update(new_stats())
        stats.update(keep)
        stats["lexers"] = stats.get("lexers", 0) + 1
        gen = pvl.lexer.lexer(s, g=g, d=d)
        return CountingTokens(gen, factor * len(s) + floor, stats)

    fn.stats = stats
    return fn


@contextmanager
def backstop(seconds=60, cpu=False):
    """Backstop for calls that run without a token budget.  cpu=False: wall clock
    (expiry means *inconclusive*, never a violation; for calls that may block on
    input).  cpu=True: CPU time of this process - independent of how busy the machine
    is, so that a limit of minutes on a call that takes milliseconds can be read as
    "does not return"."""

    def handler(signum, frame):
        raise WallClockBackstop()

    sig, timer = (signal.SIGVTALRM, signal.ITIMER_VIRTUAL) if cpu else \
        (signal.SIGALRM, signal.ITIMER_REAL)
    old = signal.signal(sig, handler)
    signal.setitimer(timer, seconds)
    try:
        yield
    finally:
        signal.setitimer(timer, 0)
        signal.signal(sig, old)
