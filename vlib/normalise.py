"""Canonical comparison forms and the *documented* normalisations of C01/C02.

canon(obj)            parsed pvl object  -> nested tuples
expect(spec, ...)     generator spec     -> the same form, after the dialect's
                      documented normalisations (written from the property text
                      and the decoder docstrings, not by calling pvl).
"""
import datetime as dtm
import re

FE = "\n\r\v\f"
WS = " \t" + FE

US_DAY = 86400 * 10 ** 6


def fold(s):
    """ODL text-string folding as documented in ODLDecoder.decode_quoted_string:
    dash + format effector + following white space removed, leading/trailing
    white space stripped, every white-space run collapsed to one blank."""
    s = re.sub("-[" + FE + "][" + WS + "]*", "", s)
    s = s.strip(WS)
    return re.sub("[" + WS + "]+", " ", s)


def omni_dash(s):
    """OmniParser.parse docstring: dash + (LF|CR|FF) + following white space is
    removed from the whole document before lexing."""
    return re.sub(r"-[\n\r\f]\s*", "", s)


def _tod_us(h, m, s, us):
    return ((h * 3600 + m * 60 + s) * 10 ** 6) + us


def canon_time(h, m, s, us, off_min, default_utc):
    """off_min None = naive."""
    if off_min is None:
        if default_utc:
            return ("time", "aware", _tod_us(h, m, s, us))
        return ("time", "naive", _tod_us(h, m, s, us))
    return ("time", "aware", (_tod_us(h, m, s, us) - off_min * 60 * 10 ** 6) % US_DAY)


def canon_dt(y, mo, d, h, mi, s, us, off_min, default_utc):
    tot = dtm.date(y, mo, d).toordinal() * US_DAY + _tod_us(h, mi, s, us)
    if off_min is None:
        return ("dt", "aware" if default_utc else "naive", tot)
    return ("dt", "aware", tot - off_min * 60 * 10 ** 6)


def _off_min(v):
    """UTC offset in minutes (int when whole minutes, Fraction otherwise)."""
    off = v.utcoffset()
    if off is None:
        return None
    us = (off.days * 86400 + off.seconds) * 10 ** 6 + off.microseconds
    if us % (60 * 10 ** 6) == 0:
        return us // (60 * 10 ** 6)
    from fractions import Fraction
    return Fraction(us, 60 * 10 ** 6)


def canon(v):
    from pvl.collections import Quantity
    if v is None:
        return ("none",)
    if isinstance(v, bool):
        return ("bool", v)
    if isinstance(v, int):
        return ("int", int(v))
    if isinstance(v, float):
        return ("float", float(v).hex())
    if isinstance(v, str):
        return ("str", str(v))
    if isinstance(v, dtm.datetime):
        return canon_dt(v.year, v.month, v.day, v.hour, v.minute, v.second,
                        v.microsecond, _off_min(v), False)
    if isinstance(v, dtm.date):
        return ("date", v.toordinal())
    if isinstance(v, dtm.time):
        return canon_time(v.hour, v.minute, v.second, v.microsecond,
                          _off_min(v), False)
    if isinstance(v, Quantity):
        return ("q", canon(v.value), str(v.units))
    if isinstance(v, list):
        return ("seq", tuple(canon(i) for i in v))
    if isinstance(v, (set, frozenset)):
        return ("set", frozenset(canon(i) for i in v))
    tag = container_tag(v)
    if tag is not None:
        return (tag, tuple((str(k), canon(x)) for k, x in items_of(v)))
    return ("other", type(v).__name__, repr(v))


def items_of(m):
    return list(m.items())


def container_tag(v):
    import pvl.collections as pc
    names = [("grp", ("PVLGroup", "PVLGroupNew")),
             ("obj", ("PVLObject", "PVLObjectNew")),
             ("mod", ("PVLModule", "PVLModuleNew"))]
    for tag, clsnames in names:
        for cn in clsnames:
            cls = getattr(pc, cn, None)
            if cls is not None and isinstance(v, cls):
                return tag
    if isinstance(v, (pc.OrderedMultiDict,)) or (
            getattr(pc, "PVLMultiDict", None) and isinstance(v, pc.PVLMultiDict)):
        return "omd"
    return None


class Norm:
    """The normalisations a (writer dialect, reader dialect) pair may apply."""

    def __init__(self, upper_names=False, folding=False, default_utc=True,
                 omni=False, tab_replace=0):
        # tab_replace: the PDS3 encoder's documented option - every TAB it would
        # write becomes that many blanks (visible in units; inside quoted strings the
        # ODL-family readers fold white space anyway)
        self.tab_replace = tab_replace
        self.upper_names = upper_names
        self.folding = folding
        self.default_utc = default_utc
        self.omni = omni

    def string(self, s):
        if self.omni:
            s = omni_dash(s)
        if self.folding:
            s = fold(s)
        return s


def norm_for(writer, reader, cfg=None):
    return Norm(
        tab_replace=(cfg or {}).get("tab_replace", 4) if writer == "PDS3" else 0,
        upper_names=writer in ("ODL", "PDS3"),
        folding=reader in ("ODL", "PDS3", "ISISv", "default"),
        default_utc=reader in ("PVL", "PDS3", "ISIS", "ISISv", "default"),
        omni=reader in ("ISISv", "default"),
    )


def expect_value(v, n):
    if v is None:
        return ("none",)
    if isinstance(v, bool):
        return ("bool", v)
    if isinstance(v, int):
        return ("int", v)
    if isinstance(v, float):
        return ("float", v.hex())
    if isinstance(v, str):
        return ("str", n.string(v))
    if "date" in v:
        return ("date", dtm.date(*v["date"]).toordinal())
    if "time" in v:
        h, m, s, us, tz = v["time"]
        if tz == "rule":
            tz = None      # a rule-based zone gives a time of day no offset: it is naive
        return canon_time(h, m, s, us, tz, n.default_utc)
    if "dt" in v:
        y, mo, d, h, mi, s, us, tz = v["dt"]
        if tz == "rule":
            from .gen_values import rule_offset_minutes
            tz = rule_offset_minutes(mo)
        return canon_dt(y, mo, d, h, mi, s, us, tz, n.default_utc)
    if "q" in v:
        units = v["q"][1]
        if n.tab_replace > 0:
            units = units.replace("\t", " " * n.tab_replace)
        if n.omni:
            # the documented dash continuation of OmniParser.parse works on the whole
            # text, units expressions included
            units = omni_dash(units)
        return ("q", expect_value(v["q"][0], n), units)
    if "seq" in v:
        return ("seq", tuple(expect_value(i, n) for i in v["seq"]))
    if "set" in v:
        # Python keeps only the first of elements that compare equal
        # (False == 0 == 0.0): mirror what the built frozenset contains.
        from .gen_values import build_value
        kept = {}
        for i in v["set"]:
            kept.setdefault(build_value(i), i)
        return ("set", frozenset(expect_value(i, n) for i in kept.values()))
    if "grp" in v:
        return ("grp", expect_items(v["grp"], n))
    if "obj" in v:
        return ("obj", expect_items(v["obj"], n))
    raise ValueError(v)


def expect_items(items, n):
    out = []
    for k, v in items:
        is_block = isinstance(v, dict) and ("grp" in v or "obj" in v)
        kk = k.upper() if (n.upper_names and not is_block) else k
        out.append((kk, expect_value(v, n)))
    return tuple(out)


def expect_module(spec, n):
    return ("mod", expect_items(spec, n))


def diff(exp, got, allow_g2o=False, path="$"):
    """Returns None if equal, else (path, expected, got) of the first
    difference.  allow_g2o: a 'grp' may have become an 'obj' (PDS3)."""
    if exp[0] in ("mod", "grp", "obj") and got[0] in ("mod", "grp", "obj"):
        if exp[0] != got[0] and not (allow_g2o and exp[0] == "grp"
                                     and got[0] == "obj"):
            return (path, f"container {exp[0]}", f"container {got[0]}")
        e, g = exp[1], got[1]
        for i in range(max(len(e), len(g))):
            if i >= len(e):
                return (f"{path}[{i}]", "<nothing>", g[i])
            if i >= len(g):
                return (f"{path}[{i}]", e[i], "<nothing>")
            if e[i][0] != g[i][0]:
                return (f"{path}[{i}].key", e[i][0], g[i][0])
            d = diff(e[i][1], g[i][1], allow_g2o, f"{path}[{i}:{e[i][0]}]")
            if d is not None:
                return d
        return None
    if exp[0] == "seq" and got[0] == "seq":
        e, g = exp[1], got[1]
        if len(e) != len(g):
            return (path, exp, got)
        for i in range(len(e)):
            d = diff(e[i], g[i], allow_g2o, f"{path}[{i}]")
            if d is not None:
                return d
        return None
    if exp[0] == "q" and got[0] == "q":
        if exp[2] != got[2]:
            return (path + ".units", exp[2], got[2])
        return diff(exp[1], got[1], allow_g2o, path + ".value")
    if exp != got:
        return (path, exp, got)
    return None


def kind_of_canon(c):
    return c[0] if isinstance(c, tuple) and c else "?"
