"""Runs vlib.fuzz_target in a sub-process for one shard and folds its findings into the
shard's accumulator (used by the thorough tiers of several properties)."""
import json
import os
import shutil
import subprocess
import sys
import time


def atheris_shard(acc, pid, seed, runs, use_corpus, max_len=400, prop=None):
    from vlib.runner import VERIF
    work = os.path.join(VERIF, ".work", f"atheris-{pid}-{seed}-{int(use_corpus)}")
    shutil.rmtree(work, ignore_errors=True)
    corpus_dir = os.path.join(work, "corpus")
    os.makedirs(corpus_dir)
    if use_corpus and prop is not None:
        for n, data in enumerate(prop.fuzz_corpus()):
            with open(os.path.join(corpus_dir, f"seed{n}"), "wb") as f:
                f.write(data[:max_len])
    cmd = [sys.executable, "-m", "vlib.fuzz_target", pid, work, corpus_dir,
           f"-runs={runs}", f"-max_len={max_len}", f"-seed={seed}",
           "-print_final_stats=0", f"-artifact_prefix={work}/", "-timeout=120",
           "-rss_limit_mb=4096"]
    budget = max(30, int(acc.deadline - time.time())) if acc.deadline else 600
    try:
        p = subprocess.run(cmd, cwd=VERIF, env=dict(os.environ), capture_output=True,
                           text=True, timeout=budget)
        out = (p.stdout or "") + (p.stderr or "")
    except subprocess.TimeoutExpired:
        out = "timeout"
        acc.notes["budget_exhausted"] = 1
    if "No module named" in out and "atheris" in out:
        acc.event("atheris:unavailable")
        shutil.rmtree(work, ignore_errors=True)
        return
    n, classes = 0, {}
    try:
        d = json.load(open(os.path.join(work, "count.json")))
        n, classes = d["n"], d["classes"]
    except Exception:
        if "Traceback" in out and "failures.jsonl" not in os.listdir(work):
            # the target itself could not start: a harness problem, not a verdict
            raise RuntimeError("fuzz target failed to run:\n" + out[-1500:])
    acc.evaluations += n
    acc.event("atheris:executions", n)
    acc.event("atheris:corpus" if use_corpus else "atheris:empty-corpus")
    for k, v in classes.items():
        acc.event("atheris:" + k, v)
    fpath = os.path.join(work, "failures.jsonl")
    if os.path.exists(fpath):
        for line in open(fpath):
            rec = json.loads(line)
            acc.fail(rec["signature"], rec["case"], rec["detail"])
    for c in os.listdir(work):
        if c.startswith(("timeout-", "oom-")):
            # a wall-clock or memory limit is inconclusive, never a verdict
            acc.event("atheris:inconclusive-" + c.split("-")[0])
        elif c.startswith("crash-"):
            data = open(os.path.join(work, c), "rb").read()
            try:
                klass, failure = prop.fuzz_one(data)
            except BaseException as e:   # noqa: BLE001 - the artifact reproduces
                failure = (f"{pid}/libfuzzer-crash/{type(e).__name__}",
                           dict(fuzz_bytes=data.hex()), repr(e))
            if failure is not None:
                acc.fail(*failure)
            else:
                acc.event("atheris:crash-artifact-not-reproduced")
    shutil.rmtree(work, ignore_errors=True)
