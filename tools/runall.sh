#!/bin/bash
# Runs the quick tier of every registered check; prints one line per check.
cd "$(dirname "$0")/.."
for id in $(python3 -c "import json;print(' '.join(c['property_id'] for c in json.load(open('MANIFEST.json'))['checks']))"); do
  out=$(./check $id --tier ${1:-quick} 2>&1); rc=$?
  echo "$id rc=$rc $(echo "$out" | grep -E '^C[0-9]+ tier' | cut -c1-150)"
  echo "$out" | grep -E "VIOLATION|KNOWN-FINDING|HARNESS" | head -5
  [ $rc = 2 ] && echo "$out" | tail -25
done
