#!/bin/bash
# Offline set-up: make sure hypothesis (and, if available, atheris) can be
# imported by /venv/bin/python; install from the local wheelhouse otherwise.
set -u
HERE="$(cd "$(dirname "${BASH_SOURCE[0]}")/.." && pwd)"
PY=/venv/bin/python
mkdir -p "$HERE/.work" "$HERE/evidence"
if ! PYTHONPATH="$HERE/.deps" $PY -c "import hypothesis" 2>/dev/null; then
  $PY -m pip install -q --no-index --find-links /opt/veriftools/wheels \
      --target "$HERE/.deps" hypothesis || exit 1
fi
if ! PYTHONPATH="$HERE/.deps" $PY -c "import atheris" 2>/dev/null; then
  $PY -m pip install -q --no-index --find-links /opt/veriftools/wheels \
      --target "$HERE/.deps" atheris >/dev/null 2>&1 || echo "atheris not installable (optional)"
fi
PYTHONPATH="/repo:$HERE:$HERE/.deps" $PY -c "import hypothesis, pvl, vlib.runner; print('setup ok: hypothesis', hypothesis.__version__, 'pvl from', pvl.__file__)"
