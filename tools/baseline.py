#!/usr/bin/env python3
"""Runs the repository's pinned test suite (guard OFF) and checks that every
test in BASELINE.json's stable_pass list still passes.  Exit 0 iff so."""
import json, os, subprocess, sys, tempfile
import xml.etree.ElementTree as ET

repo = os.environ.get("VERIF_REPO", "/repo")
base = json.load(open("/root/.vp/BASELINE.json"))
env = dict(os.environ)
env.pop("PLANETARYPY_PVL_VERIF", None)
with tempfile.TemporaryDirectory(dir="/var/tmp") as td:
    xml = os.path.join(td, "r.xml")
    subprocess.run(
        ["/venv/bin/python", "-m", "pytest", "-ra", "-q", "-p", "no:cacheprovider",
         "--timeout=900", "--continue-on-collection-errors", f"--junitxml={xml}"],
        cwd=repo, env=env, stdout=subprocess.DEVNULL, stderr=subprocess.DEVNULL)
    passed = set()
    for tc in ET.parse(xml).getroot().iter("testcase"):
        if not any(c.tag in ("failure", "error", "skipped") for c in tc):
            passed.add(f"{tc.get('classname')}::{tc.get('name')}")
missing = [t for t in base["stable_pass"] if t not in passed]
print(f"baseline: {len(base['stable_pass']) - len(missing)}/{len(base['stable_pass'])} stable tests pass; {len(passed)} passed in total")
for m in missing:
    print("  NOT PASSING:", m)
sys.exit(1 if missing else 0)
