#!/bin/bash
# tools/seedtest.sh <ID> [<check ids...>]
# Confirms the seeded change in /tmp/seed-<ID> (suite passes, demo fails with / passes
# without the change), stores it under seeded/<name>/ and runs the given checks (default:
# the property's own) against the changed tree via VERIF_REPO.
ID=$1; shift
WT=${SEED_WT:-/tmp/seed-$ID}
NAME=${SEED_NAME:-$ID}
CHECKS=${@:-$ID}
OUT=/verif/seeded/$NAME
mkdir -p $OUT
cd $WT || exit 2
git diff -- pvl > $OUT/patch.diff
[ -s $OUT/patch.diff ] || { echo "no change in $WT"; exit 2; }
cp demo_test.py $OUT/demo_test.py 2>/dev/null
cp SEED_NOTES.md $OUT/SEED_NOTES.md 2>/dev/null
echo "== suite with change:"; VERIF_REPO=$WT /verif/tools/baseline.py | head -3; SUITE=$?
echo "== demo with change:"; (cd $WT && timeout 120 /venv/bin/python demo_test.py >/dev/null 2>&1); D1=$?; echo "exit $D1"
git apply -R $OUT/patch.diff; echo "== demo without change:"; (cd $WT && timeout 120 /venv/bin/python demo_test.py >/dev/null 2>&1); D0=$?; echo "exit $D0"; git apply $OUT/patch.diff
RES=""
for c in $CHECKS; do
  o=$(cd /verif && VERIF_REPO=$WT timeout 900 ./check $c --tier ${SEED_TIER:-quick} 2>&1); rc=$?
  echo "== check $c rc=$rc"; echo "$o" | grep -E "^C[0-9]+ tier|signature" | cut -c1-260 | head -6
  RES="$RES $c:$rc"
  if [ $rc = 1 ]; then
     # keep the replay that caught it
     f=$(echo "$o" | grep -m1 "^VIOLATION" | sed 's/.*replay=//'); [ -f "$f" ] && cp "$f" $OUT/caught-by-$c.json
  fi
done
cd /verif && git -C /verif status --short evidence | head -1 >/dev/null; git -C /verif checkout -- evidence 2>/dev/null
python3 - <<PYEOF
import json, os, datetime
meta = dict(
    name="$NAME", breaks_property="${SEED_PROP:-$ID}",
    needs=os.environ.get("SEED_NEEDS", "see SEED_NOTES.md"),
    confirmed=dict(pinned_suite_passes_with_change=($SUITE == 0),
                   demo_exit_with_change=$D1, demo_exit_without_change=$D0),
    ran="tools/seedtest.sh: VERIF_REPO=<scratch worktree with patch.diff applied> ./check <id> --tier ${SEED_TIER:-quick} (same code as git -C /repo apply patch.diff)",
    checks={c.split(":")[0]: ("VIOLATION" if c.split(":")[1] == "1" else "quiet" if c.split(":")[1] == "0" else "exit " + c.split(":")[1]) for c in "$RES".split()},
)
old = {}
path = "$OUT/meta.json"
if os.path.exists(path):
    old = json.load(open(path))
    meta["checks"] = {**old.get("checks", {}), **meta["checks"]}
    if meta["needs"] == "see SEED_NOTES.md" and old.get("needs"):
        meta["needs"] = old["needs"]
json.dump(meta, open(path, "w"), indent=1)
PYEOF
echo "SUMMARY $NAME suite_ok=$([ $SUITE = 0 ] && echo yes || echo NO) demo_with=$D1 demo_without=$D0 checks:$RES"
