#!/usr/bin/env python3
"""Writes /verif/MANIFEST.json from the table below (single source of truth)."""
import json
import os

HERE = os.path.dirname(os.path.dirname(os.path.abspath(__file__)))

BASELINE_CMD = ("cd /repo && env -u PLANETARYPY_PVL_VERIF /venv/bin/python -m pytest "
                "-ra -q -p no:cacheprovider --timeout=900 "
                "--continue-on-collection-errors")

# id -> (level category, technique, level text, level note, design ref)
CHECKS = {
    "C10": (
        "exploration",
        "model-based property testing: exhaustive bounded enumeration of operation "
        "histories + Hypothesis-generated histories against a list-of-pairs model",
        "Every operation history up to depth 3 (quick) / 4 (thorough) over a 50-op "
        "alphabet is replayed on OrderedMultiDict (one level less for PVLModule/"
        "PVLGroup/PVLObject), plus thousands of random histories of up to 40 ops; "
        "after every step every public accessor, the return value and the exception "
        "type are compared with an independent list model. Complete up to the depth "
        "bound, sampled beyond it.",
        "Trusted: the list model written from the property text and docstrings; "
        "Python's list semantics.",
        "DESIGN.md 4/C10",
    ),
}

CHECKS.update({
    "C01": (
        "exploration",
        "round-trip property testing: Hypothesis-generated module specs x encoder "
        "options, oracle = independent normaliser + exact-type structural comparison",
        "Thousands of generated modules per encoder (hazard-pool strings, temporals "
        "with naive/UTC/offset zones, quantities, nested sequences/sets/blocks, "
        "duplicate keys) are dumped with random encoder options and re-read by the "
        "strict parser of the same dialect under a token-pull budget; the result "
        "must equal the original up to the normalisations the property lists. "
        "Sampled, not exhaustive.",
        "Trusted: vlib/normalise.py (string folding and zone rules re-implemented "
        "from the property text and decoder docstrings), the generator's notion of "
        "'values a dialect can represent'.",
        "DESIGN.md 4/C01",
    ),
    "C02": (
        "exploration",
        "round-trip property testing against the default permissive loader, "
        "including the literal pvl.loads(pvl.dumps(m)) path",
        "Same generated domain as C01; every emitted text is read by a budgeted "
        "twin of the default loader and then by the real pvl.loads(text) call; "
        "content must equal the normalised original and module.errors must be "
        "empty. Sampled, not exhaustive.",
        "Trusted: as C01, plus the documented dash-continuation rewrite of "
        "OmniParser.parse treated as a normalisation of string content.",
        "DESIGN.md 4/C02",
    ),
    "C11": (
        "exploration",
        "property testing of copy/deepcopy/pickle with follow-up mutation "
        "histories; oracle = harness snapshots before/after and the C10 accessor "
        "invariant",
        "Generated nested containers of all four classes are copied by each of "
        "nine mechanisms; equality, class at every level, integrity of the "
        "original and independence under generated mutation histories on either "
        "side (top level for shallow kinds, nested containers/lists for deep "
        "kinds) are checked. Sampled.",
        "Trusted: the recursive snapshot function; shallow copies are only "
        "required to be independent at the top level.",
        "DESIGN.md 4/C11",
    ),
})

CHECKS.update({
    "C03": (
        "exploration",
        "grammar-directed property testing: generated documents with every permitted "
        "spelling, oracle = expected tree computed by the generator from the "
        "specification's spelling rules",
        "Thousands of generated documents per parser variant (PVL, ODL, PDS3, ISIS "
        "strict, ISIS as pvl_validate wires it, default): based integers in every "
        "radix/sign position, reals, both quote characters, unquoted strings, "
        "keywords in any case, temporals, nested sets/sequences, units, blocks with "
        "BEGIN_/plain keywords, optional delimiters and END + junk; the loaded tree "
        "must equal the generator's expectation exactly (type and value). Sampled.",
        "Trusted: the spelling tables in vlib/gen_text.py (written from the spec "
        "extracts under spec/), vlib/normalise.py for folding/zone rules.",
        "DESIGN.md 4/C03",
    ),
    "C04": (
        "exploration",
        "metamorphic property testing: two random re-layouts (white space + comments) "
        "of a generated token list must load to the same module as the canonical layout",
        "Each generated document is rendered with single blanks and with two "
        "independent layouts over all seven white-space forms and the dialect's "
        "comment syntaxes (edge bodies: quotes, delimiters, '/', '*', '#', a '#' "
        "comment at end of text); all three must load and agree. Sampled.",
        "Trusted: the required/optional classification of token gaps in "
        "vlib/gen_text.py; comment bodies never contain a comment delimiter.",
        "DESIGN.md 4/C04",
    ),
})

CHECKS.update({
    "C05": (
        "fault_enumeration",
        "fault injection at token level on generated well-formed documents + "
        "exhaustive short token sequences; oracle = independent recursive-descent "
        "recogniser written from the specifications' BNF",
        "Generated documents are damaged by 1-3 token faults (delete, duplicate, swap, "
        "replace, truncate, cut inside a quoted string/units) and every token sequence "
        "of length <= 4 (quick) / 5 (thorough) over a 14-token vocabulary is enumerated; "
        "whenever the reference recogniser finds the text ill-formed before END/EOF "
        "the loader must raise LexerError/ParseError, and when it finds it well-formed "
        "a returned module must equal the recogniser's tree.",
        "Trusted: vlib/refread.py (validated on every un-faulted document); cases the "
        "specifications leave open are skipped and counted.",
        "DESIGN.md 4/C05",
    ),
    "C06": (
        "exploration",
        "bounded exhaustive enumeration of strings and token sequences + Hypothesis "
        "token soup / Unicode text / corpus mutations; oracle = exception type and a "
        "deterministic token-pull budget for termination",
        "All strings up to length 3 (quick) / 5 (thorough) over a 21-symbol alphabet "
        "and all token sequences up to length 4 / 5 over a 17-token vocabulary (plus "
        "bracket-rich value tails) are loaded under all six parser variants; only a "
        "module, LexerError or ParseError is acceptable; spinning is detected by a "
        "counting lexer passed through the public lexer_fn parameter. Complete up to "
        "the stated bounds, sampled beyond.",
        "Trusted: the pull budget (60*len+2000) is generous enough for any "
        "terminating parse; loops that do not touch the token stream are not seen.",
        "DESIGN.md 4/C06",
    ),
})

CHECKS.update({
    "C08": (
        "exploration",
        "property testing with generated value gaps: structured documents with a "
        "chosen subset of values removed, rendered in seeded layouts; oracle = "
        "generator's tree and line numbers computed on the input text",
        "Thousands of documents per permissive variant with 1..all values removed at "
        "top level and in nested blocks (adjacent gaps, last-in-block, before block "
        "begin/end, ';', END, end of text), laid out with comments that contain '=', "
        "CRLF and several statements per line; the returned tree, each placeholder's "
        "line number and module.errors must match, and PVL/ODL/PDS3 strict parsers "
        "must raise. Sampled.",
        "Trusted: line numbers count LF in the text handed in; the gap/position "
        "bookkeeping of vlib/gen_text.layout_with_positions.",
        "DESIGN.md 4/C08",
    ),
})

CHECKS.update({
    "C07": (
        "exploration",
        "round-trip idempotence testing: load -> dump -> load -> dump on generated "
        "texts, gap texts, the corpus and a pool of loader-only values",
        "For every loadable text and encoder (with random options) the second load "
        "must equal the first up to the encoder's documented normalisations and the "
        "second dump must be byte-identical to the first (set elements may be "
        "reordered, compared with a quote-aware set sorter). All tests/data files "
        "and pool texts run on every invocation. Sampled.",
        "Trusted: vlib/normalise.py canonical forms; the default loader is used for "
        "both loads (its own correctness is C03's subject).",
        "DESIGN.md 4/C07",
    ),
})

CHECKS.update({
    "C12": (
        "exploration",
        "conformance testing of generated encoder output with an independent "
        "quote-aware line-level reader (vlib/surface.py), no pvl code in the oracle",
        "Every text an encoder returns for thousands of generated modules and option "
        "sets is scanned and re-read by a reader written for this check: character "
        "set, line ends, keyword spelling, statement delimiters, ODL parameter-name "
        "form, units placement, one-line symbol strings, tabs, final END, "
        "indentation = level x indent, '=' alignment, block pairing and end-block "
        "names. Sampled.",
        "Trusted: vlib/surface.py; the alignment rule is applied only to one-line "
        "statements that fit in width when aligned.",
        "DESIGN.md 4/C12",
    ),
    "C13": (
        "exploration",
        "property testing with repeated calls: snapshot of the argument (structure, "
        "classes, leaf identities) before/after each of three dumps, texts compared",
        "Generated modules (40% block-heavy: group-only, duplicate block names, "
        "non-PDS groups) are dumped three times through one encoder instance, fresh "
        "encoders or pvl.dumps defaults; the argument must be unchanged (only "
        "PVLGroup->PVLObject permitted under PDS3) and every call must return the "
        "same text or refuse the same way. Sampled.",
        "Trusted: the snapshot function; canonical forms of vlib/normalise.py.",
        "DESIGN.md 4/C13",
    ),
})

CHECKS.update({
    "C14": (
        "exploration",
        "exhaustive enumeration of date literals and boundary products of time/zone "
        "fields + Hypothesis date-times; oracle = objects built from the fields "
        "(decode) and an independent regex reader of the encoder's text (encode)",
        "Every day of the chosen years (quick: 11 boundary years; thorough: all of "
        "0001-9999) in both date forms, 6x5x5x23x2 time literals, every whole and "
        "half-hour zone offset in every spelling, seconds=60 and day 366 of non-leap "
        "years are decoded by decode_datetime and by a full parse under six variants; "
        "temporal objects over a grid of micro-second and offset values are encoded "
        "by four encoders and read back by a reference reader and the own decoder.",
        "Trusted: the harness formatter/reader for date-time text (written from "
        "spec/odl_ch12_extract.txt 12.3.2) and Python's datetime constructors.",
        "DESIGN.md 4/C14",
    ),
})

CHECKS.update({
    "C15": (
        "exploration",
        "exhaustive enumeration: all 1,114,112 code points x 5 grammars against an "
        "arithmetic predicate; code points x 8 label positions x 7 configurations "
        "with an oracle on exception type and pos/lineno/colno arithmetic",
        "The character tables are checked completely on every run. Positioned loads "
        "cover code points 0..0x2FF, every range boundary and 1500 seeded random code "
        "points in the quick tier and every code point in the thorough tier, in "
        "parameter names, unquoted and quoted values, comments, units, between "
        "statements, at a line end and after END, under the strict parsers, under "
        "pvl.loads(grammar=...) and under the default loader.",
        "Trusted: the arithmetic predicate taken from the property statement; the "
        "eight label templates.",
        "DESIGN.md 4/C15",
    ),
})

CHECKS.update({
    "C16": (
        "exploration",
        "differential history testing: generated call histories on long-lived "
        "parser/encoder/decoder instances (incl. the CLI modules' module-level "
        "instances) versus a fresh instance per call",
        "Histories of 2-12 parse/encode/decode calls with well-formed, repaired, "
        "lexer-failing, parser-failing and trailing-junk texts and accepted/refused "
        "modules are issued to one instance of each class and to pvl_validate's / "
        "pvl_translate's tables; every call's module, errors attribute and exception "
        "must equal what a fresh instance gives. All ordered pairs of 12 fixed texts "
        "run on every invocation. Sampled otherwise.",
        "Trusted: fresh constructions mirror the documented wiring of each dialect; "
        "object addresses in messages are masked.",
        "DESIGN.md 4/C16",
    ),
})

CHECKS.update({
    "C17": (
        "exploration",
        "exhaustive enumeration of short token texts + curated borderline texts + "
        "Hypothesis mutations; oracle = reference regular expressions and mutual "
        "consistency of decoder type, token predicates and encoder quoting",
        "Every string of length 1-4 (quick) / 1-5 (thorough) over a 16-character "
        "alphabet, ~150 curated borderline texts in several letter cases/prefixes and "
        "mutated numerals/dates are classified under five grammar/decoder pairs and "
        "four encoders: the decoder's result class must match the specification's "
        "regular expressions, exactly the matching predicate must hold, numbers and "
        "dates must not pass as unquoted strings or names, and whatever an encoder "
        "writes bare must decode to the identical str under its own and the default "
        "decoder.",
        "Trusted: the reference regular expressions in props/c17.py; date/time is "
        "checked one-directionally (strict form => date/time class).",
        "DESIGN.md 4/C17",
    ),
})

CHECKS.update({
    "C18": (
        "exploration",
        "property testing over generated documents x substitute-class configurations; "
        "oracle = recursive type walk, recorded constructor arguments, and equality "
        "with the generator's expected tree after mapping substitutes back",
        "Generated documents are loaded under six parser variants with every "
        "combination of real_cls (float / Decimal / a recording float subclass), "
        "quantity_cls and container subclasses; each real must be an instance of the "
        "substitute built from exactly the written numeral, each integer an int, each "
        "value-with-units a quantity_cls, each container exactly the substitute class, "
        "at every depth, and nothing else may change. Sampled.",
        "Trusted: the generator's expected tree (C03 oracle); RecordingReal / "
        "RecordingQuantity defined in props/c18.py.",
        "DESIGN.md 4/C18",
    ),
})

CHECKS.update({
    "C19": (
        "exploration",
        "differential testing of pvl.new against pvl on generated well-formed texts, "
        "encoder output and the corpus",
        "For each text both loaders must agree on success/exception class, the new "
        "result must use exactly the New container classes and have the same items "
        "at every level, and pvl.new.dumps / every encoder parameterised with the New "
        "classes must write the same text (or refuse alike) as the default family. "
        "All corpus files run on every invocation; sampled otherwise.",
        "Trusted: pvl.loads as the reference side (its own correctness is C03); "
        "texts for which the default loader repairs empty values are outside "
        "'well-formed' and skipped.",
        "DESIGN.md 4/C19",
    ),
})

CHECKS.update({
    "C20": (
        "exploration",
        "differential testing of the CLI entry points against the library on "
        "generated, corpus and damaged label files (in-process main(argv), real files)",
        "pvl_translate.main is run for each of the five formats and its output file "
        "compared byte for byte with pvl.dumps(pvl.load(in), fresh encoder) (JSON: "
        "parsed and compared with the label's nested pairs), including which "
        "exception class escapes; pvl_validate.main is run on 1 and on 2-5 files, its "
        "report parsed in both layouts and every Loads/Encodes cell compared with "
        "fresh parser/encoder instances wired as documented. Sampled.",
        "Trusted: the report parser in props/c20.py; CLI modules are re-imported per "
        "case so their module-level instances start fresh.",
        "DESIGN.md 4/C20",
    ),
})

CHECKS.update({
    "C09": (
        "exploration",
        "differential property testing of the eight ways to hand a label to "
        "load/loadu/loads with generated trailing bytes (buffer-boundary placement of "
        "the first undecodable byte), token-position oracle via a counting lexer; dump "
        "targets compared with dumps()",
        "Generated ASCII labels ending in END are followed by a separator and by "
        "binary / UTF-8 / NUL / truncated-multibyte / long unbroken tails; each file is "
        "loaded through str path, Path, file: URL, text stream, binary file, BytesIO, "
        "str and bytes; all must equal the label's own module and never request a "
        "token past END. Dumps to six target kinds must write exactly dumps() and "
        "return the count written. Sampled.",
        "Trusted: real files under .work/; UTF-8 default encoding; tails up to "
        "40 000 bytes (quick) / 1 000 000 bytes (thorough).",
        "DESIGN.md 4/C09",
    ),
})

PENDING = {}   # id -> reason while a check is not built yet


# what later rounds added to a check: (appended to technique, appended to level text)
ADDENDA = {
    "C05": ("", " Further fault kinds: a stray character outside the character set, an "
            "ASCII NUL (a reserved character of the default grammar), units or quoted "
            "strings that lose their closer while the text goes on, a comment delimiter "
            "glued to a bare word, a changed begin-keyword form; every single fault at "
            "every position of five base documents and every ordered pair of faults on "
            "three small ones."),
    "C06": ("; thorough tier adds coverage-guided fuzzing (atheris/libFuzzer) with the "
            "oracle inside the target; every load of a text of <= 2000 characters runs "
            "under a CPU-time limit (ITIMER_VIRTUAL) so that a computation that never "
            "touches the token stream is seen as well",
            " Also enumerated: every curated borderline lexeme in 12 statement contexts, "
            "and every sequence of <= 4 / 5 items over a vocabulary of '#' comments, dash "
            "continuations and '#' characters that start no comment."),
    "C07": ("; character-level mutants of all sources; thorough tier adds coverage-guided "
            "fuzzing (atheris/libFuzzer) of raw text with this oracle inside the target",
            " Mutants (delete / splice a significant lexeme / duplicate / swap / join "
            "lines) of generated, pool and corpus texts are kept when the loader still "
            "accepts them."),
    "C08": ("", " Parameters named like the value keywords (TRUE, null, ...) and 0-3 "
            "dash-continued strings ahead of the gaps are part of the domain."),
    "C09": ("; hand-over ways include os.DirEntry / __fspath__ paths, streams already read "
            "from, and OS pipes (streams that cannot be rewound); dump targets include "
            "tempfile wrappers and a codecs writer",
            " Labels also come as UTF-8 with multi-byte runs that straddle 8192-byte "
            "blocks, with '#' comments, and with CR LF / bare CR / mixed line ends; the "
            "token-position oracle covers every lexer pass of a load, not only the parse."),
    "C10": ("; pair arguments handed over as lists, tuples, one-shot iterators (generator, "
            "zip, iter), items()-only and keys()-only objects and views of another "
            "container; the container rebuilt through its constructor and copy(); containers made from the one under test (copy(), constructor, extend) are kept and checked after every step, with a swap operation; extend/update with the container itself or one of its views under a CPU-time guard; slices of the views", ""),
    "C11": ("", " Each container may have gone through 1-5 C10 operations (inserts, "
            "deletions, pops ...) before the copy is taken."
            " Plain dict values are injected by assignment, insert and append; after a mutation the accessors of the mutated side run before the other side is checked."),
    "C15": ("", " 24 basic positions, among them the very first and the very last "
            "character of the text, glued to comments, after a dash continuation and on "
            "later lines of multi-line lexemes, plus every gap of a 38-token label."
            " Three positions have dash continuations on both sides of the character; range boundaries and large code points are processed first."),
    "C16": ("; soak runs: one instance per parser variant and encoder gets 400 (quick) / "
            "5000 (thorough) mostly failing calls, each repeated on a fresh instance; thorough tier adds coverage-guided atheris histories (texts split out of raw bytes)",
            " Fixed texts include ones that end or fail 45-120 levels deep in nested "
            "sequences, sets and blocks."
            " Histories may register a quantity class on a used encoder (mirrored on later fresh twins) and encode values of it."),
    "C18": ("", " One document in four carries a sequence of reals that are equal in value "
            "and differ in spelling (2.5, 2.50, 25.0e-1 ...), so that a real_cls that keeps "
            "the written text must receive each of them."
            " A fourth real_cls is a plain class that is no numbers.Number; six fixed labels with sets that contain sequences are loaded under every configuration (a refusal is fine, a result must carry the substitutes)."),
    "C19": ("; character-level mutants and - thorough tier - coverage-guided atheris "
            "inputs, kept when the default loader accepts them without repair", ""
            " Every fourth text gets a dumps() with encoder options first and the plain calls after it; eleven extra texts have empty blocks and empty sequences."),
    "C20": ("", " Files also come with a UTF-8 byte order mark, undecodable bytes or NULs "
            "after the label, and CR line ends (bytes are carried in cases through "
            "surrogateescape)."
            " pvl_validate is also run with -v and -vv."),
    "C01": ("", " The generators also produce names no dialect can write (an encoder has to "
            "refuse them), keyword-prefixed words, label-like multi-line strings, 4 kB "
            "strings, units with line breaks or delimiters, boolean magnitudes and a "
            "rule-based tzinfo; a width sweep writes small modules at every width."
            " One case in four uses an encoder object that has been used before (for the same module)."),
    "C03": ("", " One document in 25 is a bulk label (a few statements plus empty / one-"
            "element sequences and sets repeated 40-250 times)."),
    "C13": ("; call styles: one kept encoder, kept encoder with related / unrelated / "
            "refused modules in between, a quantity class registered on another encoder "
            "in between, a decoder object shared between encoders of several dialects", ""),
    "C12": ("", " Same widened module domain as C01 (near-miss names, units with line "
            "breaks, 4 kB strings)."
            " The four encoders take turns in every process and about one string in 360 is outside the dialect's character set."),
    "C14": ("", " Encode direction includes a rule-based tzinfo (offset depends on the "
            "date; none for a bare time)."),
}

ADDENDA2 = {
    "C04": ("", " '#' comment bodies include ones that end in what a value could end in "
            "(a time, a date, a radix or exponent prefix, an open bracket); corpus labels "
            "are re-laid out with the harness's own tokenizer."),
    "C05": ("; loaders also built with substitute container classes (same class for "
            "groups and objects, subclasses of each other)",
            " Faults added later: NUL, an end keyword of the wrong kind, a doubled units "
            "opener, empty item slots."),
    "C06": ("", " A long_flat shard loads flat sets and sequences of 500-5000 items (closed, "
            "cut off, with units, of strings) under every configuration."),
    "C09": ("", " Labels with a byte order mark, loads from OS pipes, a fixed set of labels "
            "and tails under every hand-over way."),
    "C11": ("", " Containers of 30-70 pairs and EmptyValueAtLine placeholder values (what "
            "the default loader puts in for a missing value) are part of the domain."),
    "C12": ("", " Encoders are also constructed the way a caller does who passes only a "
            "decoder or only a grammar; Decimal values (special values included)."),
    "C13": ("; other dialects writing long statements between the calls; one-shot iterator "
            "values; fresh-process shards: every case of these runs in a fork of a process "
            "that has imported pvl and done nothing else, so that the first call of a case "
            "is the first thing the library does in its process", ""),
    "C15": ("", " Lone carriage returns before the character; the oracle accepts either "
            "definition of a line (LF; CR LF | CR | LF) if lineno and colno use the same."),
    "C16": ("; new-process shards: what a fresh instance gives for an input alone is also "
            "worked out in a fork of a process that has only imported the library, so "
            "that state kept on classes or modules counts as state between calls",
            " CR-only texts with dash continuations and empty values; a fixed list of "
            "encode specifications (failing pointer statements, symbol strings) in every "
            "history."),
    "C18": ("", " Substitute quantity classes include one that refuses some units and one "
            "that is false at magnitude zero; a parser may be kept while other parsers are "
            "built and used."),
    "C19": ("", " Plain repeated pvl.new.loads calls with edits below the top level between "
            "them; texts that start with a byte order mark or have names that are not in "
            "Unicode NFC."),
}
ADDENDA3 = {
    "C05": ("", " A comment that is opened and never closed (text ending in a line end or "
            "not) is one of the faults."),
    "C09": ("", " Commented labels end in END / End / end / eNd."),
    "C11": ("; containers as the loaders return them (six labels x five loaders: times with "
            "zone offsets, placeholders, quantities, sets) x every way of copying", ""),
    "C12": ("", " An assignment may share its name with a block of the same module."),
    "C13": ("; the same encoder handed to pvl.new.dumps / pvl.new.dump between the calls", ""),
    "C15": ("; mixed wiring: pvl.loads with a strict grammar= and a decoder= built around a "
            "grammar with a larger character set (four combinations x 400 code points x 24 "
            "positions in the quick tier)", ""),
    "C16": ("; modules of both container families (pvl.load and pvl.new.load results) on one "
            "encoder", ""),
    "C20": ("", " 26 fixed texts on which the dialects disagree (the Omni row alone failing "
            "included) are validated alone and in company and mixed into generated runs."),
    "C02": ("; the un-budgeted pvl.loads runs under a CPU-time limit", ""),
}
ADDENDA4 = {
    "C01": ("", " Modules are also handed over as plain dict / OrderedDict / read-only mapping "
            "(names unique at the top level); ints beyond the range of a C double."),
    "C05": ("; single faults again with the text handed to pvl.load() as a binary stream, "
            "a two-byte character across the 8192-byte block boundary in front of them", ""),
    "C06": ("; documented decoder options (real_cls=Decimal, a substitute quantity_cls) as "
            "parser configurations over extreme numerals in every statement context", ""),
    "C07": ("", " Pool texts hold strings with the other quote character that are longer than "
            "half a line / a line, have a control character, or sit in a sequence."),
    "C09": ("", " The product file lies under eight different names (blanks, non-ASCII "
            "letters, '%', '#', '+', sub-directories) - what a file: URL has to quote."),
    "C13": ("; one case in three turns every frozenset of the module into a mutable set", ""),
    "C14": ("", " Encode direction includes offsets beyond ODL's +-12 h (written faithfully "
            "or refused)."),
    "C15": ("; the same clause through pvl.load() of bytes (binary stream, path) with the "
            "character across / at / before bytes 8192 and 16384 and three kinds of tail", ""),
    "C16": ("; instances handed to pvl.loads / pvl.dumps together with grammar= / decoder= of "
            "another dialect, then used alone again", ""),
    "C17": ("; every curated text also as a Token returned by Token.split / strip / lstrip / "
            "rstrip / replace", ""),
    "C19": ("; every third text also as bytes to both loaders (UTF-8, data behind END, "
            "Latin-1, a stray undecodable byte at five positions)", ""),
}
ADDENDA5 = {
    "C04": ("; bulk gaps: 1200-3000 comments in a row, 20 000 blanks or line ends, one "
            "100 kB comment, in five positions under every parser", ""),
    "C05": ("; random cases also judged in generated layouts (white space and comments "
            "between the faulted tokens); documents with multi-line strings where every "
            "token is followed in turn by each of six separators", ""),
    "C09": ("; an ordinarily opened text stream (universal newlines) as one more way; labels "
            "with dash continuations (positions counted in the shortened text)", ""),
    "C13": ("; pvl.dumps / pvl.dump with the kept encoder plus option keywords between the "
            "calls", ""),
    "C14": ("", " Instances of subclasses of datetime, date and time are written too."),
    "C17": ("", " Curated texts include spellings that casefold() maps onto keywords and "
            "lower() / upper() do not."),
    "C19": ("; every third text also with eight grammar= / decoder= keyword combinations on "
            "both loads()", ""),
}
for _k, (_a, _b) in list(ADDENDA2.items()) + list(ADDENDA3.items()) + list(ADDENDA4.items()) + list(ADDENDA5.items()):
    _o = ADDENDA.get(_k, ("", ""))
    ADDENDA[_k] = (_o[0] + _a, _o[1] + _b)


def main():
    props = [json.loads(l) for l in open(os.path.join(HERE, "properties.jsonl"))]
    checks = []
    na = []
    for p in props:
        pid = p["id"]
        if pid in CHECKS:
            cat, tech, text, note, ref = CHECKS[pid]
            tech += ADDENDA.get(pid, ("", ""))[0]
            text += ADDENDA.get(pid, ("", ""))[1]
            checks.append(dict(
                property_id=pid,
                quick_cmd=f"./check {pid} --tier quick",
                thorough_cmd=f"./check {pid} --tier thorough",
                evidence_file=f"evidence/{pid}.json",
                replay_cmd_template=f"./check {pid} --replay {{path}}",
                engine="pbt",
                level_claimed=dict(category=cat, text=text, design_ref=ref),
                level_note=note,
                technique=tech,
            ))
        else:
            na.append(dict(property_id=pid, reason=PENDING.get(
                pid, "check not built yet in this round (planned: property-based "
                "check per DESIGN.md section 4); not claimed until it exists")))
    man = dict(
        version=1,
        setup_cmd="./tools/setup.sh",
        hooks=dict(
            guard="PLANETARYPY_PVL_VERIF",
            enable="export PLANETARYPY_PVL_VERIF=1 (set by ./check; no source hook "
                   "exists: every observation point is public API, e.g. the parser's "
                   "lexer_fn parameter)",
            baseline_off_cmd=BASELINE_CMD,
            source_commits=[],
            add_only=True,
        ),
        engines=[dict(
            name="pbt", path="vlib/runner.py",
            serves_properties=sorted(CHECKS),
            kind_free_text="Hypothesis strategies + exhaustive bounded enumeration, "
                           "sharded over 16 processes, collect-then-decide with "
                           "root-cause signatures, greedy shrinking to replay files",
        )],
        checks=checks,
        notes="Each check rebuilds nothing: pvl is pure Python and is imported from "
              "/repo's working tree by a fresh interpreter. Genuine defects are in "
              "known_findings.json (fixed: with commit; open: KNOWN-FINDING).",
        not_applicable=na,
    )
    with open(os.path.join(HERE, "MANIFEST.json"), "w") as f:
        json.dump(man, f, indent=1)
    print(f"MANIFEST.json: {len(checks)} checks, {len(na)} not claimed")


if __name__ == "__main__":
    main()
