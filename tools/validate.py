#!/usr/bin/env python3
"""Validates MANIFEST.json and every evidence file against the schemas (run with python3-vt)."""
import json, glob, sys, jsonschema
ok = True
try:
    jsonschema.validate(json.load(open('/verif/MANIFEST.json')), json.load(open('/root/.vp/MANIFEST.schema.json')))
except Exception as e:
    ok = False; print("MANIFEST invalid:", e)
sch = json.load(open('/root/.vp/EVIDENCE.schema.json'))
for f in sorted(glob.glob('/verif/evidence/*.json')):
    try:
        jsonschema.validate(json.load(open(f)), sch)
    except Exception as e:
        ok = False; print(f, "invalid:", str(e)[:300])
print("valid" if ok else "INVALID")
sys.exit(0 if ok else 1)
