"""C10 - multi-dict list view and mapping view agree after any operation history.

Domain : operation histories from the empty container (exhaustive to a depth
         bound over a small op alphabet, Hypothesis-generated beyond).
Oracle : a plain Python list of (key, value) pairs updated by the documented
         semantics of each operation; every public accessor is compared with
         the list after every step, and the return value / exception type of
         each operation with the model's.
"""
import itertools
import warnings

from hypothesis import given, seed as hseed, settings, HealthCheck, Phase
from hypothesis import strategies as st

from vlib.shrink import shrink_seq

ID = "C10"
LEVEL = "exploration"
BUDGET = {"quick": 200, "thorough": 1200}
RULE = (
    "case = (container class, history of operations from the empty container); "
    "exhaustive part: every history up to depth D (quick 3, thorough 4) over the "
    "fixed op alphabet EX_OPS (keys a,b; values 1,2; pair arguments also as one-shot "
    "generators / zip / items()-only and keys()-only objects / views of another "
    "container; the container rebuilt through its constructor or copy()); random part: Hypothesis "
    "lists of up to 40 ops over keys a,b,c,d and values 1..3/lists/nested "
    "containers. After every step all public accessors are compared with a "
    "list-of-pairs model. Non-trivial = the history creates a duplicate key and "
    "mutates the container afterwards; distinct by (class, history)."
)
ASSUMPTIONS = [
    "model semantics are taken from the property statement and the method "
    "docstrings: assignment replaces the first occurrence and drops later "
    "ones; del/pop(k)/popall/discard remove all and return the first value; "
    "pop()/popitem() remove the last pair; insert(i, pairs) == lst[i:i]=pairs; "
    "update == assignment per pair; setdefault appends when absent",
    "Deprecation/Future warnings are silenced",
]


def EXHAUSTIVE(tier):
    return True


def classes():
    from pvl.collections import (OrderedMultiDict, PVLModule, PVLGroup,
                                 PVLObject)
    return {"OrderedMultiDict": OrderedMultiDict, "PVLModule": PVLModule,
            "PVLGroup": PVLGroup, "PVLObject": PVLObject}


_MISSING = "__missing__"


# ---------------------------------------------------------------- the model
def first(lst, k):
    for kk, v in lst:
        if kk == k:
            return v
    raise KeyError(k)


def model_set(lst, k, v):
    for i, (kk, _) in enumerate(lst):
        if kk == k:
            lst[i] = (k, v)
            lst[i + 1:] = [p for p in lst[i + 1:] if p[0] != k]
            return
    lst.append((k, v))


def model_del(lst, k):
    if not any(kk == k for kk, _ in lst):
        raise KeyError(k)
    lst[:] = [p for p in lst if p[0] != k]


def model_key_index(lst, k, inst):
    idxs = [i for i, (kk, _) in enumerate(lst) if kk == k]
    if not idxs:
        raise KeyError(k)
    return idxs[inst]      # IndexError when out of range


def pairs_of(x):
    return [tuple(p) for p in x]


class ItemsObj:
    """Not a Mapping, but has .items() - which hands out a one-shot generator."""

    def __init__(self, pairs):
        self._pairs = list(pairs)

    def items(self):
        return (p for p in self._pairs)


class KeysObj:
    """The minimal 'mapping protocol' object dict.update() accepts: keys() + []."""

    def __init__(self, pairs):
        self._d = dict(pairs)

    def keys(self):
        return iter(list(self._d))

    def __getitem__(self, k):
        return self._d[k]


CARRIERS = ("list", "tuple", "lol", "gen", "zip", "iter", "itemsobj", "omd",
            "omd_items", "dict_items", "keysobj")
UNIQUE_ONLY = ("dict_items", "keysobj")


def carry(kind, pairs, cls):
    """The same pairs handed over in different kinds of argument object."""
    pairs = pairs_of(pairs)
    if kind == "list":
        return list(pairs)
    if kind == "tuple":
        return tuple(pairs)
    if kind == "lol":
        return [list(p) for p in pairs]
    if kind == "gen":
        return (p for p in pairs)
    if kind == "zip":
        return zip([k for k, _ in pairs], [v for _, v in pairs])
    if kind == "iter":
        return iter(list(pairs))
    if kind == "itemsobj":
        return ItemsObj(pairs)
    if kind == "omd":
        return cls(pairs)
    if kind == "omd_items":
        return cls(pairs).items()
    if kind == "dict_items":
        return dict(pairs).items()
    if kind == "keysobj":
        return KeysObj(pairs)
    raise AssertionError(kind)


def apply_model(lst, op):
    """Mutates *lst*; returns the documented return value."""
    name = op[0]
    if name in ("rebuild", "copy", "fork_copy", "fork_ctor", "fork_extend", "swap"):
        return None
    if name in ("extend_self", "extend_own_items"):
        lst.extend(list(lst))
        return None
    if name == "insert_own_items":
        i = op[1]
        lst[i:i] = list(lst)
        return None
    if name in ("update_self", "update_own_items"):
        for k, v in list(lst):
            model_set(lst, k, v)
        return None
    if name == "extend_as":
        lst.extend(pairs_of(op[2]))
        return None
    if name == "update_as":
        for k, v in pairs_of(op[2]):
            model_set(lst, k, v)
        return None
    if name == "insert_as":
        i = op[2]
        lst[i:i] = pairs_of(op[3])
        return None
    if name == "append":
        lst.append((op[1], op[2]))
    elif name in ("extend_pairs", "extend_map", "extend_kw"):
        lst.extend(pairs_of(op[1]))
    elif name == "insert3":
        i = op[1]
        lst[i:i] = [(op[2], op[3])]
    elif name in ("insert_pair",):
        i = op[1]
        lst[i:i] = [tuple(op[2])]
    elif name in ("insert_pairs", "insert_map"):
        i = op[1]
        lst[i:i] = pairs_of(op[2])
    elif name in ("insert_before", "insert_after"):
        k, new, inst = op[1], op[2], op[3]
        idx = model_key_index(lst, k, inst)
        if name == "insert_after":
            idx += 1
        new = pairs_of(new)
        lst[idx:idx] = new
    elif name == "setitem":
        model_set(lst, op[1], op[2])
    elif name == "delitem":
        model_del(lst, op[1])
    elif name in ("pop0", "popitem"):
        if not lst:
            raise KeyError("empty")
        return lst.pop()
    elif name in ("popk", "popall"):
        v = first(lst, op[1])
        model_del(lst, op[1])
        return v
    elif name in ("popkd", "popalld"):
        try:
            v = first(lst, op[1])
        except KeyError:
            return op[2]
        model_del(lst, op[1])
        return v
    elif name == "setdefault":
        try:
            return first(lst, op[1])
        except KeyError:
            lst.append((op[1], op[2]))
            return op[2]
    elif name in ("update_map", "update_pairs", "update_kw", "update_omd"):
        for k, v in pairs_of(op[1]):
            model_set(lst, k, v)
    elif name == "discard":
        try:
            model_del(lst, op[1])
        except KeyError:
            pass
    elif name == "clear":
        del lst[:]
    else:
        raise AssertionError(op)
    return None


class DoesNotTerminate(BaseException):
    pass


def _bounded_cpu(fn, seconds=0.3):
    """fn() under a CPU-time limit (ITIMER_VIRTUAL: robust against a busy machine)."""
    import signal

    def handler(signum, frame):
        raise DoesNotTerminate()

    old = signal.signal(signal.SIGVTALRM, handler)
    signal.setitimer(signal.ITIMER_VIRTUAL, seconds)
    try:
        return fn()
    finally:
        signal.setitimer(signal.ITIMER_VIRTUAL, 0)
        signal.signal(signal.SIGVTALRM, old)


def apply_real(d, op, cls):
    name = op[0]
    if name == "extend_self":
        # the container as its own argument (list.extend(itself) doubles the list);
        # a loop that keeps reading what it appends is cut off after 0.3 s of CPU time
        return _bounded_cpu(lambda: d.extend(d))
    if name == "extend_own_items":
        # a view of the container itself as the argument
        return _bounded_cpu(lambda: d.extend(d.items()))
    if name == "update_self":
        return d.update(d)
    if name == "insert_own_items":
        return _bounded_cpu(lambda: d.insert(op[1], d.items()))
    if name == "update_own_items":
        return _bounded_cpu(lambda: d.update(d.items()))
    if name == "extend_as":
        return d.extend(carry(op[1], op[2], cls))
    if name == "update_as":
        return d.update(carry(op[1], op[2], cls))
    if name == "insert_as":
        return d.insert(op[2], carry(op[1], op[3], cls))
    if name == "append":
        return d.append(op[1], op[2])
    if name == "extend_pairs":
        return d.extend(pairs_of(op[1]))
    if name == "extend_map":
        return d.extend(dict(pairs_of(op[1])))
    if name == "extend_kw":
        return d.extend(**dict(pairs_of(op[1])))
    if name == "insert3":
        return d.insert(op[1], op[2], op[3])
    if name == "insert_pair":
        return d.insert(op[1], tuple(op[2]))
    if name == "insert_pairs":
        return d.insert(op[1], pairs_of(op[2]))
    if name == "insert_map":
        return d.insert(op[1], dict(pairs_of(op[2])))
    if name in ("insert_before", "insert_after"):
        new = pairs_of(op[2])
        arg = new[0] if op[4] == "pair" else new
        return getattr(d, name)(op[1], arg, op[3])
    if name == "setitem":
        d[op[1]] = op[2]
        return None
    if name == "delitem":
        del d[op[1]]
        return None
    if name == "pop0":
        return d.pop()
    if name == "popitem":
        return d.popitem()
    if name == "popk":
        return d.pop(op[1])
    if name == "popkd":
        return d.pop(op[1], op[2])
    if name == "popall":
        return d.popall(op[1])
    if name == "popalld":
        return d.popall(op[1], op[2])
    if name == "setdefault":
        return d.setdefault(op[1], op[2])
    if name == "update_map":
        return d.update(dict(pairs_of(op[1])))
    if name == "update_pairs":
        return d.update(pairs_of(op[1]))
    if name == "update_kw":
        return d.update(**dict(pairs_of(op[1])))
    if name == "update_omd":
        return d.update(cls(pairs_of(op[1])))
    if name == "discard":
        return d.discard(op[1])
    if name == "clear":
        return d.clear()
    raise AssertionError(op)


def op_valid(op):
    """Structural preconditions of the op encodings (not of the container)."""
    name = op[0]
    if name in ("extend_as", "update_as") and op[1] in UNIQUE_ONLY:
        ks = [p[0] for p in op[2]]
        return len(ks) == len(set(ks))
    if name in ("extend_map", "extend_kw", "insert_map", "update_map",
                "update_kw"):
        ks = [p[0] for p in op[1 if name != "insert_map" else 2]]
        return len(ks) == len(set(ks))
    return True


KEYS_ALL = ["a", "b", "c", "d", "zz"]


def check_views(d, lst, cls):
    """Returns None or a short description of the first disagreement."""
    try:
        got = list(d)
        if got != lst:
            return f"iter {got!r} != {lst!r}"
        if len(d) != len(lst):
            return f"len {len(d)} != {len(lst)}"
        n = len(lst)
        for i in range(-n, n):
            if d[i] != lst[i]:
                return f"[{i}] {d[i]!r} != {lst[i]!r}"
        for i in (n, -n - 1):
            try:
                d[i]
                return f"[{i}] did not raise IndexError"
            except IndexError:
                pass
        for sl in (slice(None), slice(1, None), slice(None, -1),
                   slice(None, None, 2), slice(1, 3)):
            if d[sl] != lst[sl]:
                return f"[{sl}] {d[sl]!r} != {lst[sl]!r}"
        ks = [k for k, _ in lst]
        vs = [v for _, v in lst]
        kv, vv, iv = d.keys(), d.values(), d.items()
        if list(kv) != ks or len(kv) != n:
            return f"keys() {list(kv)!r} != {ks!r}"
        if list(vv) != vs or len(vv) != n:
            return f"values() {list(vv)!r} != {vs!r}"
        if list(iv) != lst or len(iv) != n:
            return f"items() {list(iv)!r} != {lst!r}"
        for i in range(-n, n):
            if kv[i] != ks[i] or vv[i] != vs[i] or iv[i] != lst[i]:
                return f"view index {i} disagrees"
        for sl in (slice(None), slice(1, None), slice(None, -1), slice(None, None, 2),
                   slice(0, 2)):
            if list(kv[sl]) != ks[sl] or list(vv[sl]) != vs[sl] or \
                    list(iv[sl]) != lst[sl]:
                return (f"view slice {sl}: keys {kv[sl]!r} values {vv[sl]!r} items "
                        f"{iv[sl]!r}, list says {lst[sl]!r}")
        for k in KEYS_ALL:
            present = k in ks
            if (k in d) != present:
                return f"{k!r} in d is {k in d}, list says {present}"
            if (k in kv) != present:
                return f"{k!r} in keys() is {k in kv}, list says {present}"
            allv = [v for kk, v in lst if kk == k]
            if present:
                if d[k] != allv[0]:
                    return f"d[{k!r}] {d[k]!r} != first {allv[0]!r}"
                if d.get(k) != allv[0] or d.get(k, 99) != allv[0]:
                    return f"get({k!r}) {d.get(k)!r} != first {allv[0]!r}"
                ga = d.getall(k)
                if list(ga) != allv:
                    return f"getall({k!r}) {ga!r} != {allv!r}"
                idxs = [i for i, kk in enumerate(ks) if kk == k]
                for inst in range(-len(idxs), len(idxs)):
                    if d.key_index(k, inst) != idxs[inst]:
                        return (f"key_index({k!r},{inst}) "
                                f"{d.key_index(k, inst)} != {idxs[inst]}")
                try:
                    d.key_index(k, len(idxs))
                    return f"key_index({k!r},{len(idxs)}) did not raise"
                except IndexError:
                    pass
                if kv.index(k) != ks.index(k):
                    return f"keys().index({k!r}) wrong"
                if iv.index((k, allv[0])) != lst.index((k, allv[0])):
                    return f"items().index wrong for {k!r}"
                if vv.index(allv[-1]) != vs.index(allv[-1]):
                    return f"values().index wrong for {allv[-1]!r}"
                for v in allv:
                    if (k, v) not in iv:
                        return f"({k!r},{v!r}) not in items()"
                    if v not in vv:
                        return f"{v!r} not in values()"
            else:
                try:
                    d[k]
                    return f"d[{k!r}] did not raise KeyError"
                except KeyError:
                    pass
                if d.get(k) is not None or d.get(k, 99) != 99:
                    return f"get({k!r}) of absent key returned a value"
                try:
                    d.key_index(k)
                    return f"key_index({k!r}) of absent key did not raise"
                except KeyError:
                    pass
                try:
                    r = d.getall(k)
                    return f"getall({k!r}) of absent key returned {r!r}"
                except KeyError:
                    pass
                if (k, 1) in iv:
                    return f"({k!r},1) in items() for absent key"
        if "nope" in vv:
            return "'nope' in values()"
        # equality: same class, equal lists <=> equal containers
        twin = cls(lst)
        if not (d == twin) or (d != twin):
            return f"container != fresh {cls.__name__}(list)"
        if not (twin == d):
            return "fresh container != container (asymmetric ==)"
        if lst:
            other = cls(lst[:-1] + [(lst[-1][0], "other")])
            if d == other or not (d != other):
                return "container equals one with a different last value"
            other = cls(lst[:-1])
            if d == other:
                return "container equals one with the last pair missing"
            if len(lst) > 1 and lst[0] != lst[-1]:
                other = cls([lst[-1]] + lst[1:-1] + [lst[0]])
                if d == other or not (d != other):
                    return "container equals one with first/last swapped"
            # the same pairs grouped by key: every key keeps its values in order, only
            # the interleaving of different keys changes
            grouped = sorted(lst, key=lambda p: str(p[0]))
            if grouped != lst:
                other = cls(grouped)
                if d == other or not (d != other) or other == d or not (other != d):
                    return ("container equals one whose pairs are interleaved "
                            f"differently ({grouped!r})")
                # ... and one level down: as the value of a pair of an outer container
                if cls([("k", d)]) == cls([("k", other)]) or \
                        not (cls([("k", d)]) != cls([("k", other)])):
                    return ("outer containers compare equal although their nested "
                            f"containers differ in the order of pairs ({grouped!r})")
            if not (cls([("k", d)]) == cls([("k", twin)])) or \
                    cls([("k", d)]) != cls([("k", twin)]):
                return "outer containers with equal nested containers compare unequal"
        else:
            if d == cls([("a", 1)]):
                return "empty container equals a non-empty one"
    except Exception as e:     # an accessor blew up
        return f"accessor raised {type(e).__name__}: {e}"
    return None


def run_history(clsname, history):
    """Returns None or (signature, detail)."""
    cls = classes()[clsname]
    with warnings.catch_warnings():
        warnings.simplefilter("ignore")
        d = cls()
        lst = []
        # containers made *from* d at some point (d.copy(), cls(d), cls().extend(d)):
        # each keeps the list it had then, whatever happens to d afterwards - and the
        # other way round after a "swap" (the fork becomes the container under test)
        forks = []
        for step, op in enumerate(history):
            op = tuple(op)
            if op[0] in ("fork_copy", "fork_ctor", "fork_extend", "swap"):
                try:
                    if op[0] == "fork_copy":
                        forks.append((d.copy(), list(lst)))
                    elif op[0] == "fork_ctor":
                        forks.append((cls(d), list(lst)))
                    elif op[0] == "fork_extend":
                        f = cls()
                        f.extend(d)
                        forks.append((f, list(lst)))
                    elif forks:
                        (d, lst), forks[-1] = forks[-1], (d, lst)
                except Exception as e:
                    return (f"C10/{op[0]}/outcome",
                            f"step {step} {op!r}: raised {type(e).__name__}: {e}")
                del forks[:-2]
                for f, fl in forks + [(d, lst)]:
                    why = check_views(f, fl, cls)
                    if why is not None:
                        return (f"C10/{op[0]}/views", f"step {step} {op!r}: {why}; "
                                f"model list {fl!r}; real iter {safe_list(f)!r}")
                continue
            # model first (on a copy so a model exception leaves lst intact)
            m = list(lst)
            try:
                mret = ("ok", apply_model(m, op))
                lst = m
            except (KeyError, IndexError) as e:
                mret = ("exc", type(e).__name__)
            try:
                if op[0] == "rebuild":
                    # the constructor is documented to take what extend() takes
                    d = cls(carry(op[1], list(d), cls))
                    rret = ("ok", None)
                elif op[0] == "copy":
                    d = d.copy()
                    rret = ("ok", None)
                else:
                    rret = ("ok", apply_real(d, op, cls))
            except DoesNotTerminate:
                return (f"C10/{op[0]}/does-not-terminate",
                        f"step {step} {op!r}: still running after 0.3 s of CPU time "
                        f"on a container of {len(lst)} pairs")
            except Exception as e:
                rret = ("exc", type(e).__name__)
            if op[0] in ("pop0", "popitem") and mret[0] == "exc" and \
                    rret == ("exc", "IndexError"):
                rret = mret       # either lookup error is fine for an empty container
            if mret != rret:
                return (f"C10/{op[0]}/outcome",
                        f"step {step} {op!r}: real {rret!r} model {mret!r}; "
                        f"model list after step {lst!r}")
            why = check_views(d, lst, cls)
            if why is not None:
                return (f"C10/{op[0]}/views",
                        f"step {step} {op!r}: {why}; model list {lst!r}; "
                        f"real iter {safe_list(d)!r}")
            for f, fl in forks:
                why = check_views(f, fl, cls)
                if why is not None:
                    return (f"C10/{op[0]}/views-of-another-container",
                            f"step {step} {op!r} on one container changed what a "
                            f"container made from it earlier shows: {why}; its model "
                            f"list {fl!r}; real iter {safe_list(f)!r}")
    return None


def safe_list(d):
    try:
        return list(d)
    except Exception as e:
        return f"<{type(e).__name__}>"


def nontrivial(history):
    lst = []
    dup_at = None
    for i, op in enumerate(history):
        m = list(lst)
        try:
            apply_model(m, tuple(op))
            lst = m
        except (KeyError, IndexError):
            pass
        ks = [k for k, _ in lst]
        if dup_at is None and len(ks) != len(set(ks)):
            dup_at = i
    return dup_at is not None and dup_at < len(history) - 1


# ------------------------------------------------------ exhaustive alphabet
def ex_ops():
    K, V = ["a", "b"], [1, 2]
    ops = []
    for k in K:
        for v in V:
            ops += [("append", k, v), ("setitem", k, v), ("setdefault", k, v)]
        ops += [("delitem", k), ("popk", k), ("popall", k), ("discard", k),
                ("popkd", k, 7)]
    ops += [("pop0",), ("popitem",), ("clear",)]
    for i in (0, 1, -1, 2):
        ops += [("insert3", i, "a", 1), ("insert3", i, "b", 2)]
        ops += [("insert_pairs", i, (("a", 2), ("b", 1)))]
        ops += [("insert_pairs", i, (("a", 1), ("a", 2)))]
    ops += [("insert_pair", -2, ("b", 1)), ("insert_map", 1, (("b", 1), ("a", 2)))]
    for k in K:
        for inst in (0, 1):
            ops += [("insert_before", k, (("b", 1),), inst, "pair"),
                    ("insert_after", k, (("a", 2),), inst, "pair")]
    ops += [("insert_after", "a", (("b", 2), ("a", 1)), -1, "pairs")]
    ops += [("extend_pairs", (("a", 1), ("a", 2))),
            ("extend_kw", (("b", 2),)),
            ("update_pairs", (("a", 2), ("b", 1))),
            ("update_map", (("b", 2),)),
            ("update_omd", (("a", 1), ("a", 2)))]
    # the same pairs in other kinds of argument object (one-shot iterators, objects
    # that only have items() or keys(), views of another container)
    ops += [("extend_as", "gen", (("a", 1), ("a", 2))),
            ("extend_as", "itemsobj", (("b", 1), ("a", 2))),
            ("extend_as", "omd_items", (("a", 2), ("a", 1))),
            ("update_as", "zip", (("a", 2), ("b", 1))),
            ("update_as", "keysobj", (("b", 2), ("a", 1))),
            ("insert_as", "lol", 1, (("b", 2), ("b", 1))),
            ("rebuild", "gen"), ("rebuild", "omd"), ("rebuild", "itemsobj"),
            ("copy",), ("extend_self",), ("update_self",), ("extend_own_items",), ("update_own_items",), ("insert_own_items", 1),
            ("fork_copy",), ("fork_ctor",), ("swap",)]
    return ops


def exhaustive(acc, clsname, first_idx, depth):
    ops = ex_ops()
    first = ops[first_idx]
    tails = [()]
    for dlen in range(1, depth):
        tails += list(itertools.product(ops, repeat=dlen))
    for tail in tails:
        hist = (first,) + tail
        if acc.expired():
            acc.notes["budget_exhausted"] = 1
            return
        r = run_history(clsname, hist)
        nt = nontrivial(hist)
        acc.case(key=repr((clsname, hist)), nontrivial=nt,
                 sample={"class": clsname, "history": hist} if nt else None)
        acc.event("exhaustive_histories")
        if r is not None:
            acc.fail(r[0], {"class": clsname, "history": [list(o) for o in hist]},
                     r[1])


# ------------------------------------------------------------ random part
def op_strategy():
    K = st.sampled_from(["a", "b", "c", "d"])
    V = st.one_of(st.integers(1, 3), st.sampled_from(["s", None, 2.5]))
    I = st.integers(-6, 6)
    pair = st.tuples(K, V)
    pairs = st.lists(pair, min_size=0, max_size=4).map(tuple)
    upairs = st.lists(pair, max_size=3, unique_by=lambda p: p[0]).map(tuple)
    return st.one_of(
        st.tuples(st.just("append"), K, V),
        st.tuples(st.just("setitem"), K, V),
        st.tuples(st.just("setdefault"), K, V),
        st.tuples(st.just("delitem"), K),
        st.tuples(st.just("popk"), K),
        st.tuples(st.just("popkd"), K, V),
        st.tuples(st.just("popall"), K),
        st.tuples(st.just("popalld"), K, V),
        st.tuples(st.just("discard"), K),
        st.tuples(st.sampled_from(["pop0", "popitem", "clear"])),
        st.tuples(st.just("insert3"), I, K, V),
        st.tuples(st.just("insert_pair"), I, pair),
        st.tuples(st.just("insert_pairs"), I,
                  st.lists(pair, min_size=3, max_size=4).map(tuple)),
        st.tuples(st.just("insert_pairs"), I,
                  st.lists(pair, min_size=1, max_size=1).map(tuple)),
        st.tuples(st.just("insert_map"), I, upairs),
        st.tuples(st.sampled_from(["insert_before", "insert_after"]), K,
                  st.lists(pair, min_size=1, max_size=1).map(tuple),
                  st.integers(-3, 3), st.just("pair")),
        st.tuples(st.sampled_from(["insert_before", "insert_after"]), K,
                  st.lists(pair, min_size=3, max_size=3).map(tuple),
                  st.integers(-3, 3), st.just("pairs")),
        st.tuples(st.just("extend_pairs"), pairs),
        st.tuples(st.just("extend_map"), upairs),
        st.tuples(st.just("extend_kw"), upairs),
        st.tuples(st.just("update_pairs"), pairs),
        st.tuples(st.just("update_map"), upairs),
        st.tuples(st.just("update_kw"), upairs),
        st.tuples(st.just("update_omd"), pairs),
        st.tuples(st.just("extend_as"),
                  st.sampled_from([c for c in CARRIERS if c != "keysobj"]),
                  pairs).filter(op_valid),
        st.tuples(st.just("update_as"),
                  st.sampled_from([c for c in CARRIERS if c != "itemsobj"]),
                  pairs).filter(op_valid),
        st.tuples(st.just("insert_as"), st.sampled_from(["list", "tuple", "lol"]), I,
                  st.lists(pair, min_size=3, max_size=4).map(tuple)),
        st.tuples(st.just("rebuild"),
                  st.sampled_from([c for c in CARRIERS if c not in UNIQUE_ONLY])),
        st.tuples(st.just("copy")),
        st.tuples(st.sampled_from(["extend_self", "update_self", "extend_own_items", "update_own_items"])),
        st.tuples(st.sampled_from(["fork_copy", "fork_ctor", "fork_extend", "swap"])),
        st.tuples(st.just("insert_own_items"), st.integers(-3, 3)),
    )


def random_histories(acc, clsname, n, seed):
    strat = st.lists(op_strategy(), min_size=1, max_size=40)

    @hseed(seed)
    @settings(max_examples=n, database=None, deadline=None,
              phases=[Phase.generate],
              suppress_health_check=list(HealthCheck))
    @given(strat)
    def body(hist):
        if acc.expired():
            acc.notes["budget_exhausted"] = 1
            return
        r = run_history(clsname, hist)
        nt = nontrivial(hist)
        acc.case(key=repr((clsname, hist)), nontrivial=nt,
                 sample={"class": clsname, "history": hist[:12]} if nt else None)
        acc.event("random_histories")
        acc.event("random_steps", len(hist))
        if r is not None:
            acc.fail(r[0], {"class": clsname,
                            "history": [list(o) for o in hist]}, r[1])

    body()


def shards(tier, seed):
    nops = len(ex_ops())
    depth = 3 if tier == "quick" else 4
    out = []
    for i in range(nops):
        out.append(("exhaustive", dict(clsname="OrderedMultiDict", first_idx=i,
                                       depth=depth)))
    for j, c in enumerate(("PVLModule", "PVLGroup", "PVLObject")):
        for i in range(nops):
            out.append(("exhaustive", dict(clsname=c, first_idx=i,
                                           depth=depth - 1)))
    n = 150 if tier == "quick" else 4000
    for j in range(16):
        c = ("OrderedMultiDict", "PVLModule", "PVLGroup", "PVLObject")[j % 4]
        out.append(("random_histories",
                    dict(clsname=c, n=n, seed=seed * 1000 + j)))
    return out


def _norm(x):
    if isinstance(x, list):
        return tuple(_norm(i) for i in x)
    return x


def replay(case):
    hist = [_norm(op) for op in case["history"]]
    return run_history(case["class"], hist)


def shrink(case, still_fails):
    hist = case["history"]
    kept = shrink_seq(hist, lambda h: still_fails(
        {"class": case["class"], "history": h}))
    return {"class": case["class"], "history": kept}
