"""C18 - type-customisation hooks apply uniformly at every depth.

Domain : generated documents rich in reals (top level, in sequences/sets, as
         quantity magnitudes, inside nested blocks) x subsets of substitute classes
         {real_cls in (Decimal, RecordingReal), quantity_cls = RecordingQuantity,
         module/group/object subclasses} x parser/decoder classes PVL, ODL, PDS3 (its
         decoder has no real_cls parameter), ISIS, ISISv, default.
Oracle : recursive walk of the result: every real is an instance of real_cls built
         from exactly the written numeral (RecordingReal keeps the text; Decimal is
         compared as_tuple so trailing zeros count); every integer is int; every
         value with units is a quantity_cls holding (value, units); every container
         is exactly the substitute class of its keyword; and mapping the substitutes
         back yields the tree the generator expects (what a load with the defaults
         gives - C03).
"""
from collections import Counter
from decimal import Decimal

import io
import pvl
from hypothesis import given, seed as hseed, settings, HealthCheck, Phase
from hypothesis import strategies as st
from pvl.collections import PVLModule, PVLGroup, PVLObject, Quantity
from pvl.grammar import (PVLGrammar, ODLGrammar, PDSGrammar, ISISGrammar,
                         OmniGrammar)
from pvl.decoder import PVLDecoder, ODLDecoder, PDSLabelDecoder, OmniDecoder
from pvl.parser import PVLParser, ODLParser, OmniParser

from props import c03
from vlib import gen_text as gt
from vlib import normalise as nm
from vlib.budget import BudgetExceeded, counting_lexer
from vlib.dialects import PARSERS

ID = "C18"
LEVEL = "exploration"
BUDGET = {"quick": 200, "thorough": 1200}
RULE = (
    "case = (parser variant, substitute configuration incl. the wiring of grammar "
    "and decoder {one shared grammar instance; decoder with its own default "
    "grammar; pvl.loads(grammar=, decoder=)}, document text). For the two mixed "
    "wirings the reference is the same wiring with the default classes. "
    "Non-trivial = the document has a real number below the top level (in a "
    "sequence/set/block) or inside a quantity; distinct by (variant, "
    "configuration, text)."
)
ASSUMPTIONS = [
    "RecordingReal is a float subclass that remembers the text it was built from "
    "and rejects what float() rejects, as the documentation requires of real_cls",
    "elements of a set are compared as multisets (iteration order is arbitrary)",
]


class RecordingReal(float):
    def __new__(cls, text):
        self = super().__new__(cls, text)
        self.text = str(text)
        return self


class TextReal:
    """A real-number class that is no number to Python at all: it keeps the written text
    (the documentation asks of real_cls only that it can be passed a str).  Refuses what
    float() refuses, so it cannot turn non-numbers into reals."""

    def __init__(self, text):
        float(text)
        self.text = str(text)

    def __float__(self):
        return float(self.text)

    # equal and hashed by value, as float and Decimal are, so that a set literal keeps
    # the same elements whatever the real-number class is
    def __eq__(self, other):
        if isinstance(other, TextReal):
            return float(self) == float(other)
        if isinstance(other, (int, float)) and not isinstance(other, bool):
            return float(self) == other
        if isinstance(other, bool):
            return float(self) == other
        return NotImplemented

    def __hash__(self):
        return hash(float(self.text))

    def __repr__(self):
        return f"TextReal({self.text!r})"


class RecordingQuantity:
    def __init__(self, value, units):
        self.value = value
        self.units = units

    def __repr__(self):
        return f"RQ({self.value!r}, {self.units!r})"

    def __eq__(self, other):
        return isinstance(other, RecordingQuantity) and \
            (self.value, self.units) == (other.value, other.units)

    def __hash__(self):
        return hash(("RQ", self.value, self.units))


class PickyQuantity(RecordingQuantity):
    """A quantity class that knows only some units (as astropy's does) and says so with
    ValueError: the load may fail then, but must not hand back the bare value."""

    def __init__(self, value, units):
        if str(units).isupper() or "%" in str(units):
            raise ValueError(f"unknown units {units!r}")
        super().__init__(value, units)


class FalsyAtZeroQuantity(RecordingQuantity):
    """Like numbers (and like pint's or numpy-backed quantities): false when its
    magnitude is zero or empty."""

    def __bool__(self):
        return bool(self.value)


class MyModule(PVLModule):
    pass


class MyGroup(PVLGroup):
    pass


class MyObject(PVLObject):
    pass


GRAMMAR = {"PVL": PVLGrammar, "ODL": ODLGrammar, "PDS3": PDSGrammar,
           "ISIS": ISISGrammar, "ISISv": ISISGrammar, "default": OmniGrammar}
DECODER = {"PVL": PVLDecoder, "ODL": ODLDecoder, "PDS3": PDSLabelDecoder,
           "ISIS": PVLDecoder, "ISISv": OmniDecoder, "default": OmniDecoder}
PARSER = {"PVL": PVLParser, "ODL": ODLParser, "PDS3": ODLParser, "ISIS": PVLParser,
          "ISISv": OmniParser, "default": OmniParser}
REAL = {"float": None, "Decimal": Decimal, "RecordingReal": RecordingReal,
        "TextReal": TextReal}


def load(d, cfg, text, substitutes=True):
    """wiring: 'shared'   parser and decoder share one grammar instance (default);
               'own'      the decoder is built without a grammar (its own default one)
                          and the parser gets an explicit grammar of dialect d;
               'loads'    pvl.loads(text, grammar=G(), decoder=D(...)) - the parser is
                          then the default OmniParser.
    substitutes=False builds the same wiring with the default classes."""
    g = GRAMMAR[d]()
    deckw = {}
    pkw = {}
    if substitutes:
        if cfg["real"] != "float" and d != "PDS3":
            deckw["real_cls"] = REAL[cfg["real"]]
        if cfg["quantity"]:
            deckw["quantity_cls"] = {"picky": PickyQuantity,
                                     "falsy": FalsyAtZeroQuantity}.get(
                cfg["quantity"], RecordingQuantity)
        if cfg["containers"]:
            pkw = dict(module_class=MyModule, group_class=MyGroup,
                       object_class=MyObject)
    wiring = cfg.get("wiring", "shared")

    def entry(**kw):
        # the same keyword arguments through each way of handing the text over
        how = cfg.get("entry", "str")
        if how == "bytes":
            return pvl.loads(text.encode("utf-8"), **kw)
        if how == "BytesIO":
            return pvl.load(io.BytesIO(text.encode("utf-8")), **kw)
        if how == "StringIO":
            return pvl.load(io.StringIO(text), **kw)
        return pvl.loads(text, **kw)

    if wiring == "shared":
        dec = DECODER[d](g, **deckw)
        if d == "default" and cfg.get("via_loads"):
            return entry(decoder=dec, lexer_fn=counting_lexer(), **pkw)
        parser = PARSER[d](g, dec, lexer_fn=counting_lexer(), **pkw)
        if cfg.get("kept"):
            # the parser is kept for a while: other parsers are made and used (a plain
            # loads(), parsers of the other classes) before it gets its text
            pvl.loads("x = 1\nGROUP = g\n y = 2.5 <m>\nEND_GROUP\nEND\n")
            for cls in (PVLParser, ODLParser, OmniParser):
                try:
                    cls().parse("z = (1.5, 2)\nEND\n")
                except Exception:
                    pass
        return parser.parse(text)
    dec = DECODER[d](**deckw)                 # decoder with its own default grammar
    if wiring == "own":
        return PARSER[d](g, dec, lexer_fn=counting_lexer(), **pkw).parse(text)
    return entry(grammar=g, decoder=dec, lexer_fn=counting_lexer(), **pkw)


def walk(v, cfg, d, kind, out, path="$"):
    """Checks classes; collects reals; returns canonical form mapped back."""
    realcls = REAL[cfg["real"]] if d != "PDS3" else None
    if isinstance(v, (PVLModule, PVLGroup, PVLObject)):
        want = {"mod": (MyModule if cfg["containers"] else PVLModule),
                "grp": (MyGroup if cfg["containers"] else PVLGroup),
                "obj": (MyObject if cfg["containers"] else PVLObject)}
        tag = nm.container_tag(v)
        if type(v) is not want[tag]:
            out["problems"].append(
                ("container-class", f"{path}: {type(v).__name__}, expected "
                                    f"{want[tag].__name__}"))
        return (tag, tuple((k, walk(x, cfg, d, None, out, f"{path}.{k}"))
                           for k, x in v.items()))
    if isinstance(v, list):
        return ("seq", tuple(walk(x, cfg, d, None, out, f"{path}[{i}]")
                             for i, x in enumerate(v)))
    if isinstance(v, (set, frozenset)):
        return ("set", frozenset(walk(x, cfg, d, None, out, path + "{}")
                                 for x in v))
    if isinstance(v, RecordingQuantity) or isinstance(v, Quantity):
        wantq = {False: Quantity, True: RecordingQuantity, "picky": PickyQuantity,
                 "falsy": FalsyAtZeroQuantity}[cfg["quantity"]]
        if type(v) is not wantq:
            out["problems"].append(
                ("quantity-class", f"{path}: {type(v).__name__}, expected "
                                   f"{wantq.__name__}"))
        if not isinstance(v.units, str):
            out["problems"].append(("units-type", f"{path}: {v.units!r}"))
        return ("q", walk(v.value, cfg, d, None, out, path + ".value"), str(v.units))
    if isinstance(v, TextReal):
        if realcls is not TextReal:
            out["problems"].append(("real-class", f"{path}: TextReal unexpected"))
        out["texts"].append(v.text)
        return ("float", float(v.text).hex())
    if isinstance(v, tuple):
        # some other sequence type (not a quantity: those were handled above)
        return ("seq", tuple(walk(x, cfg, d, None, out, f"{path}[{i}]")
                             for i, x in enumerate(v)))
    if isinstance(v, bool) or v is None or isinstance(v, str):
        return nm.canon(v)
    if isinstance(v, int):
        if type(v) is not int:
            out["problems"].append(("int-class", f"{path}: {type(v).__name__}"))
        return ("int", int(v))
    if isinstance(v, Decimal):
        if realcls is not Decimal:
            out["problems"].append(("real-class", f"{path}: Decimal unexpected"))
        out["decimals"].append(v.as_tuple())
        return ("float", float(v).hex())
    if isinstance(v, float):
        if realcls is TextReal:
            out["problems"].append(
                ("real-class", f"{path}: float {v!r}, expected TextReal"))
        elif realcls is RecordingReal:
            if type(v) is not RecordingReal:
                out["problems"].append(
                    ("real-class", f"{path}: {type(v).__name__} {v!r}, expected "
                                   f"RecordingReal"))
            else:
                out["texts"].append(v.text)
        elif realcls is Decimal:
            out["problems"].append(
                ("real-class", f"{path}: float {v!r}, expected Decimal"))
        elif type(v) is not float:
            out["problems"].append(("real-class", f"{path}: {type(v).__name__}"))
        return ("float", float(v).hex())
    return nm.canon(v)


def run_case(case):
    d, cfg, text = case["dialect"], case["cfg"], case["text"]
    shared = cfg.get("wiring", "shared") == "shared"
    expected = case["expected"]
    if not shared:
        # grammar and decoder of different classes: the generator's tree is not the
        # reference any more; the same wiring with the default classes is.
        try:
            base = load(d, cfg, text, substitutes=False)
        except BudgetExceeded:
            return None
        except Exception as e:
            try:
                load(d, cfg, text)
            except BudgetExceeded:
                return None
            except Exception:
                return None              # both fail: nothing changed
            return (f"C18/{d}/only-default-classes-fail",
                    f"cfg={cfg}: fails with the default classes ({e!r:.100}) but "
                    f"loads with substitutes; text={text!r}")
        base_cfg = dict(cfg, real="float", quantity=False, containers=False)
        expected = walk(base, base_cfg, d, "mod",
                        dict(problems=[], texts=[], decimals=[]))
    try:
        m = load(d, cfg, text)
    except BudgetExceeded:
        return (f"C18/{d}/spins", repr(text))
    except Exception as e:
        if cfg["quantity"] == "picky" and type(e).__name__ == "QuantityError":
            return None          # the class refused some units: failing is fine
        return (f"C18/{d}/load-raises/{type(e).__name__}",
                f"cfg={cfg}: {type(e).__name__}: {str(e)[:200]}; text={text!r}")
    out = dict(problems=[], texts=[], decimals=[])
    got = walk(m, cfg, d, "mod", out)
    if out["problems"]:
        rule, msg = out["problems"][0]
        return (f"C18/{d}/{rule}", f"cfg={cfg}: {msg}; text={text!r}")
    dd = nm.diff(expected, got)
    if dd is not None:
        return (f"C18/{d}/result-differs-from-default",
                f"cfg={cfg}: at {dd[0]} expected {dd[1]!r} got {dd[2]!r}; "
                f"text={text!r}")
    realcls = cfg["real"] if d != "PDS3" else "float"
    if not shared and count_reals(expected) != len(case["numerals"]):
        return None          # this wiring reads some numerals differently anyway
    if realcls in ("RecordingReal", "TextReal"):
        if Counter(out["texts"]) != Counter(case["numerals"]):
            return (f"C18/{d}/real-text-altered",
                    f"real_cls received {sorted(out['texts'])}, the text has "
                    f"{sorted(case['numerals'])}")
    if realcls == "Decimal":
        want = Counter(Decimal(t).as_tuple() for t in case["numerals"])
        if Counter(out["decimals"]) != want:
            return (f"C18/{d}/decimal-digits-lost",
                    f"Decimals {out['decimals']} vs numerals {case['numerals']}")
    return None


def numerals(doc):
    """Texts of the real-number tokens that are actually read (before END).  Set
    literals may drop duplicates, so those are handled as multisets of *kept*
    elements by the caller through the expected tree."""
    return [t[0] for t in doc["tokens"] if t[2] is not None and t[1] == "word"
            and t[2][0] == "float"]


def has_set_dup(c):
    """True if some set literal in the tokens lost an element (python equality)."""
    return False


RESPELL = [["2.5", "2.50", "2.500", "25.0e-1", "0.25E1", "02.5"],
           ["0.10", "0.1", ".1", "1.0e-1", "0.100"],
           ["1.", "1.0", "1.00", "1e0", "01.0", "10.E-1"],
           ["0.0", "-0.0", "0.00", "0.", "0e0"],
           ["1.5e3", "1500.0", "1.5E+3", "15.0e2", "1500."]]


@st.composite
def respelled(draw, d):
    """One more statement: a sequence (sometimes nested, sometimes with units) of reals
    that are equal in value and differ in spelling - a real_cls that keeps the written
    text has to get each of them."""
    T = gt.T
    fam = draw(st.sampled_from(RESPELL))
    k = draw(st.integers(2, len(fam)))
    texts = draw(st.permutations(fam))[:k]
    if draw(st.booleans()):
        texts = list(texts) + [texts[0]]
    items, canons = [], []
    for t in texts:
        c = ("float", float(t).hex())
        toks = [T(t, "word", c)]
        if draw(st.integers(0, 3)) == 0:
            toks.append(T("<um>", "units", "um"))
            c = ("q", c, "um")
        items.append(toks)
        canons.append(c)
    toks = gt.join_items(items, "(", ")")
    canon = ("seq", tuple(canons))
    if d not in ("ODL", "PDS3") or True:
        if draw(st.integers(0, 2)) == 0:       # one level deeper
            toks = gt.join_items([toks, [T("7", "word", ("int", 7))]], "(", ")")
            canon = ("seq", (canon, ("int", 7)))
    return ([T("RESPELLED"), T("=", "eq")] + toks, ("RESPELLED", canon))


@st.composite
def cases(draw, d):
    doc = draw(gt.documents(d, min_statements=1))
    if draw(st.integers(0, 3)) == 0:
        # before the END statement (if any)
        toks, item = draw(respelled(d))
        k = next((i for i, t in enumerate(doc["tokens"]) if t[1] == "end"),
                 len(doc["tokens"]))
        doc = dict(doc, tokens=doc["tokens"][:k] + toks + doc["tokens"][k:],
                   expected=("mod", doc["expected"][1] + (item,)))
    text = gt.seeded_layout(doc, d, draw(st.integers(0, 2 ** 32)), "light")
    cfg = dict(real=draw(st.sampled_from(["float", "Decimal", "RecordingReal",
                                           "RecordingReal", "TextReal"])),
               quantity=draw(st.sampled_from([False, True, "falsy", "picky"])),
               containers=draw(st.booleans()), kept=draw(st.booleans()),
               via_loads=draw(st.booleans()),
               entry=draw(st.sampled_from(["str", "str", "bytes", "BytesIO",
                                           "StringIO"])),
               wiring=draw(st.sampled_from(["shared", "shared", "own", "loads"])))
    return dict(dialect=d, cfg=cfg, text=text, expected=doc["expected"],
                numerals=numerals(doc), feats=c03.features(doc),
                nreal_nested=count_nested_reals(doc["expected"]))


def count_reals(c):
    k = c[0]
    if k == "float":
        return 1
    if k in ("seq",):
        return sum(count_reals(i) for i in c[1])
    if k == "set":
        return sum(count_reals(i) for i in c[1])
    if k == "q":
        return count_reals(c[1])
    if k in ("mod", "grp", "obj"):
        return sum(count_reals(v) for _, v in c[1])
    return 0


def count_nested_reals(exp):
    n = 0
    for k, v in exp[1]:
        if v[0] != "float":
            n += count_reals(v)
    return n


def set_lost_reals(case):
    """Set literals de-duplicate python-equal elements (1 == 1.0): then the number
    of reals in the expected tree is smaller than the number of numerals."""
    return count_reals(case["expected"]) != len(case["numerals"])


def random_cases(acc, d, n, seed):
    @hseed(seed)
    @settings(max_examples=n, database=None, deadline=None,
              phases=[Phase.generate], suppress_health_check=list(HealthCheck))
    @given(cases(d))
    def body(case):
        if acc.expired():
            acc.notes["budget_exhausted"] = 1
            return
        if set_lost_reals(case):
            acc.event("skipped:set-deduplicated-a-real")
            return
        if any(float(t) in (float("inf"), float("-inf")) or
               (float(t) == 0 and Decimal(t) != 0) for t in case["numerals"]):
            # a numeral that over/underflows float: Decimal legitimately differs
            acc.event("skipped:numeral-outside-float-range")
            return
        r = run_case(case)
        nt = case["nreal_nested"] > 0
        acc.case(key=repr((d, case["cfg"], case["text"])), nontrivial=nt,
                 sample={"dialect": d, "cfg": case["cfg"], "text": case["text"][:200]}
                 if nt else None)
        acc.event(f"{d}:{'ok' if r is None else 'fail'}")
        acc.event("real_cls:" + case["cfg"]["real"])
        if r is not None:
            acc.fail(r[0], dict(dialect=d, cfg=case["cfg"], text=case["text"],
                                expected=c03.jsonable(case["expected"]),
                                numerals=case["numerals"]), r[1])

    body()


# Sets that contain sequences: the PVL grammar admits them, the library refuses them at
# present (a frozenset cannot hold a list).  Whatever it does instead of refusing has
# to keep the substitutes: (text, values with units written, real numerals written)
SEQ_IN_SET = [
    ("a = { (1.50 <mm>, 2), 0.25 <mm> }\nEND\n", 2, ["1.50", "0.25"]),
    ("a = { (1.5, 2.50) }\nEND\n", 0, ["1.5", "2.50"]),
    ("a = ( { (1.5 <m>) }, 7 )\nEND\n", 1, ["1.5"]),
    ("GROUP = g\n b = { (2.50, (3.5 <s>)), 1 }\nEND_GROUP\nEND\n", 1, ["2.50", "3.5"]),
    ("a = { (1 <m>, 2 <m>), (3 <m>) } <km>\nEND\n", 4, []),
    ("a = {{(0.10 <um>, 0.1 <um>)}}\nEND\n", 2, ["0.10", "0.1"]),
]


def count_kind(c, kind):
    if not isinstance(c, tuple) or not c:
        return 0
    n = 1 if c[0] == kind else 0
    if c[0] in ("seq", "set"):
        n += sum(count_kind(i, kind) for i in c[1])
    elif c[0] == "q":
        n += count_kind(c[1], kind)
    elif c[0] in ("mod", "grp", "obj"):
        n += sum(count_kind(v, kind) for _, v in c[1])
    return n


def run_loose(case):
    """A label the library may refuse: if it loads, the substitutes must be everywhere."""
    d, cfg, text = case["dialect"], case["cfg"], case["text"]
    try:
        m = load(d, cfg, text)
    except BudgetExceeded:
        return (f"C18/{d}/spins", repr(text))
    except Exception as e:
        if type(e).__name__ in ("LexerError", "ParseError"):
            return "refused"
        return (f"C18/{d}/load-raises/{type(e).__name__}", f"cfg={cfg}: {e!r}; text={text!r}")
    out = dict(problems=[], texts=[], decimals=[])
    got = walk(m, cfg, d, "mod", out)
    if out["problems"]:
        rule, msg = out["problems"][0]
        return (f"C18/{d}/{rule}", f"cfg={cfg}: {msg}; text={text!r}")
    if count_kind(got, "q") != case["nq"]:
        return (f"C18/{d}/quantity-lost",
                f"cfg={cfg}: {case['nq']} values with units were written, "
                f"{count_kind(got, 'q')} quantities are in the result {got!r}; text={text!r}")
    realcls = cfg["real"] if d != "PDS3" else "float"
    if realcls in ("RecordingReal", "TextReal") and \
            Counter(out["texts"]) != Counter(case["numerals"]):
        return (f"C18/{d}/real-text-altered",
                f"real_cls received {sorted(out['texts'])}, the text has "
                f"{sorted(case['numerals'])}")
    return None


def loose_cases(acc):
    for text, nq, numerals_ in SEQ_IN_SET:
        for d in ("PVL", "ISIS", "ISISv", "default"):
            for real in ("float", "Decimal", "RecordingReal", "TextReal"):
                for quantity in (False, True):
                    cfg = dict(real=real, quantity=quantity, containers=quantity,
                               via_loads=(d == "default"), entry="str", wiring="shared")
                    case = dict(dialect=d, cfg=cfg, text=text, nq=nq, numerals=numerals_,
                                loose=True)
                    r = run_loose(case)
                    acc.event("seq-in-set:" + ("refused" if r == "refused" else
                                               "loaded" if r is None else "fail"))
                    acc.case(key=repr(case), nontrivial=True)
                    if r not in (None, "refused"):
                        acc.fail(r[0], case, r[1])


def shards(tier, seed):
    n = 220 if tier == "quick" else 5000
    return [("random_cases", dict(d=PARSERS[j % 6], n=n, seed=seed * 1000 + j))
            for j in range(18)] + [("loose_cases", {})]


def replay(case):
    if case.get("loose"):
        r = run_loose(case)
        return None if r in (None, "refused") else r
    c = dict(case)
    c["expected"] = c03.tuplify(case["expected"])
    return run_case(c)
