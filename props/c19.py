"""C19 - pvl.new loaders return the same content as the default loaders.

Domain : well-formed texts - grammar-generated (default dialect, random layouts),
         the tests/data corpus, and encoder output for generated modules (C01
         strategies) - x the four encoders.
Oracle : differential.  pvl.new.loads(t) raises iff pvl.loads(t) raises; the result uses exactly PVLModuleNew / PVLGroupNew /
         PVLObjectNew per keyword; its (name, value) items equal those of the
         default result at every level; pvl.new.dumps(new) == pvl.dumps(old); and for
         each encoder class E, E(group_class=PVLGroupNew, object_class=PVLObjectNew)
         .encode(new) == E().encode(old), refusing on one side iff on the other.
"""
import glob
import zlib
import os

import pvl
import pvl.new
from hypothesis import given, seed as hseed, settings, HealthCheck, Phase
from hypothesis import strategies as st
from pvl.collections import (PVLModule, PVLGroup, PVLObject, PVLModuleNew,
                             PVLGroupNew, PVLObjectNew)

from props import c01
from vlib import gen_text as gt
from vlib import gen_values as gv
from vlib import normalise as nm
from vlib.budget import BudgetExceeded, counting_lexer, backstop, WallClockBackstop
from vlib.dialects import make_encoder, ENCODERS
from vlib.shrink import shrink_seq

ID = "C19"
LEVEL = "exploration"
BUDGET = {"quick": 300, "thorough": 1200}
REPO = os.environ.get("VERIF_REPO", "/repo")
RULE = (
    "case = well-formed text (generated document in a random layout / corpus file / "
    "text an encoder produced for a generated module / a character-level mutant of "
    "one of these or - thorough - a coverage-guided atheris input, kept when the "
    "default loader accepts it without repair). Non-trivial = the text has "
    "a block or a duplicate name; distinct by text."
)
ASSUMPTIONS = [
    "multidict 6.8 is installed; PVLMultiDict.insert()/pop() are broken with it "
    "(baseline always_fail tests) but well-formed text never reaches them",
]


def structure(m, new):
    """Canonical tree + list of class problems."""
    problems = []

    def walk(x, path):
        tag = nm.container_tag(x)
        if tag is None:
            if isinstance(x, list):
                return ("seq", tuple(walk(i, path) for i in x))
            return nm.canon(x)
        want = {True: {"mod": PVLModuleNew, "grp": PVLGroupNew, "obj": PVLObjectNew},
                False: {"mod": PVLModule, "grp": PVLGroup, "obj": PVLObject}}[new]
        if tag not in want or type(x) is not want[tag]:
            problems.append(f"{path}: {type(x).__name__}")
        return (tag, tuple((str(k), walk(v, f"{path}.{k}")) for k, v in x.items()))

    return walk(m, "$"), problems


def both_loads(text):
    try:
        old = ("ok", pvl.loads(text, lexer_fn=counting_lexer()))
    except BudgetExceeded:
        return None
    except Exception as e:
        old = ("raised", type(e).__name__)
    try:
        new = ("ok", pvl.new.loads(text, lexer_fn=counting_lexer()))
    except BudgetExceeded:
        return None
    except Exception as e:
        new = ("raised", type(e).__name__)
    return old, new


def _kw_sets():
    import pvl.decoder as pd
    import pvl.grammar as pg
    return [
        ("decoder=PVLDecoder()", lambda: dict(decoder=pd.PVLDecoder())),
        ("decoder=ODLDecoder()", lambda: dict(decoder=pd.ODLDecoder())),
        ("decoder=OmniDecoder()", lambda: dict(decoder=pd.OmniDecoder())),
        ("decoder=PDSLabelDecoder()", lambda: dict(decoder=pd.PDSLabelDecoder())),
        ("grammar=PVLGrammar()", lambda: dict(grammar=pg.PVLGrammar())),
        ("grammar=ODLGrammar()", lambda: dict(grammar=pg.ODLGrammar())),
        ("grammar=ISISGrammar()", lambda: dict(grammar=pg.ISISGrammar())),
        ("grammar=OmniGrammar(), decoder=OmniDecoder(grammar=OmniGrammar())",
         lambda: dict(grammar=pg.OmniGrammar(),
                      decoder=pd.OmniDecoder(grammar=pg.OmniGrammar()))),
    ]


def keyword_handover(text):
    """Both loads() functions take grammar= and decoder=: the same keywords, the same
    outcome and the same content."""
    for name, mk in _kw_sets():
        try:
            old = ("ok", pvl.loads(text, lexer_fn=counting_lexer(), **mk()))
        except BudgetExceeded:
            continue
        except Exception as e:
            old = ("raised", type(e).__name__)
        try:
            new = ("ok", pvl.new.loads(text, lexer_fn=counting_lexer(), **mk()))
        except BudgetExceeded:
            continue
        except Exception as e:
            new = ("raised", type(e).__name__)
        STATS["kw:" + old[0]] = STATS.get("kw:" + old[0], 0) + 1
        if old[0] != new[0]:
            return ("fail", "C19/keywords/load-outcome-differs",
                    f"{name}: pvl.loads -> {old[:2]!r:.80}, pvl.new.loads -> "
                    f"{new[:2]!r:.80}; text={text[:300]!r}")
        if old[0] == "ok" and not list(old[1].errors):
            d = nm.diff(structure(old[1], False)[0], structure(new[1], True)[0])
            if d is not None:
                return ("fail", "C19/keywords/content-differs",
                        f"{name}: at {d[0]}: default {d[1]!r} new {d[2]!r}; "
                        f"text={text[:300]!r}")
    return None


def bytes_variants(text):
    """The label as a bytes object: as UTF-8, with image data behind it, in another
    8-bit encoding, and with a stray undecodable byte in the middle (a degree sign
    typed on an old system) - both loaders say they take bytes."""
    try:
        u = text.encode("utf-8")
    except UnicodeEncodeError:
        return
    yield "utf-8", u
    yield "utf-8+data", u + b"\xff\x00\xfe"
    yield "utf-8+newline+data", u + b"\n\x80\x81 more = 1\n"
    if not text.isascii():
        try:
            yield "latin-1", text.encode("latin-1")
        except UnicodeEncodeError:
            pass
    for mark in (b"/*", b"#", b'"', b"=", b"\n"):
        i = u.find(mark)
        if i >= 0:
            yield f"stray-byte-after-{mark.decode()!r}", \
                u[:i + len(mark)] + b" \xb0 " + u[i + len(mark):]
    yield "stray-byte-first", b"\xb0" + u


def bytes_handover(text):
    for how, data in bytes_variants(text):
        r = both_loads(data)
        if r is None:
            continue
        old, new = r
        STATS["bytes:" + how.split("-after-")[0]] = \
            STATS.get("bytes:" + how.split("-after-")[0], 0) + 1
        if old[0] != new[0]:
            return ("fail", "C19/bytes/load-outcome-differs",
                    f"{how}: pvl.loads(bytes) -> {old[:2]!r:.80}, pvl.new.loads(bytes) -> "
                    f"{new[:2]!r:.80}; data={data[:300]!r}")
        if old[0] == "ok" and not list(old[1].errors):
            d = nm.diff(structure(old[1], False)[0], structure(new[1], True)[0])
            if d is not None:
                return ("fail", "C19/bytes/content-differs",
                        f"{how}: at {d[0]}: default {d[1]!r} new {d[2]!r}; "
                        f"data={data[:300]!r}")
    return None


def edit_below_top(m):
    """Changes every nested block and every list value of *m* in place."""
    for k, v in list(m.items()):
        if isinstance(v, list):
            v.append("edited")
        elif hasattr(v, "items") and hasattr(v, "getall"):
            try:
                v["EDITED"] = 1
            except Exception:
                pass
            edit_below_top(v)


def enc_outcome(fn):
    try:
        return ("text", fn())
    except (ValueError, TypeError) as e:
        return ("refused", type(e).__name__)
    except Exception as e:
        return ("raised", type(e).__name__, str(e)[:200])


def run_text(text, arbitrary=False):
    """arbitrary=True: the text is not known to be well-formed (mutant / fuzzer input);
    it only counts as well-formed when the default loader accepts it without repair."""
    r = both_loads(text)
    if r is None:
        return ("skip", "spins (C06)")
    old, new = r
    if arbitrary and old[0] == "raised":
        return ("skip", "not well-formed: the default loader rejects it")
    if old[0] == "ok" and list(old[1].errors):
        return ("skip", "not well-formed: the default loader repaired empty values")
    if old[0] == "raised" or new[0] == "raised":
        if old[0] != new[0]:
            return ("fail", "C19/load-outcome-differs",
                    f"pvl.loads -> {old[:2]!r:.80}, pvl.new.loads -> {new[:2]!r:.80}; "
                    f"text={text[:300]!r}")
        return ("both-raise", old[1])
    so, po = structure(old[1], False)
    sn, pn = structure(new[1], True)
    if pn:
        return ("fail", "C19/new-container-class", f"{pn[:3]}; text={text[:300]!r}")
    if po:
        return ("fail", "C19/old-container-class", f"{po[:3]}; text={text[:300]!r}")
    d = nm.diff(so, sn)
    if d is not None:
        return ("fail", "C19/content-differs",
                f"at {d[0]}: default {d[1]!r} new {d[2]!r}; text={text[:300]!r}")
    if list(old[1].errors) != list(new[1].errors):
        return ("fail", "C19/errors-differ", f"{old[1].errors} vs {new[1].errors}")
    # Every fourth text (by its checksum, so a case replays alone): a dumps() with
    # encoder options comes first and the plain calls after it.  The options must mean
    # the same to both families and must not outlive their call.
    import zlib
    if zlib.crc32(text.encode("utf-8", "surrogatepass")) % 4 == 0:
        kw = dict(indent=4, aggregation_end=False, width=60)
        a = enc_outcome(lambda: pvl.dumps(old[1], **kw))
        b = enc_outcome(lambda: pvl.new.dumps(new[1], **kw))
        if a != b:
            return ("fail", "C19/dumps-with-options-differs",
                    f"dumps(..., {kw}): pvl -> {a!r:.200}; pvl.new -> {b!r:.200}; "
                    f"text={text[:300]!r}")

        again = both_loads(text)
        if again is None or again[1][0] != "ok":
            return ("fail", "C19/plain-load-after-options",
                    f"pvl.new.loads after a dumps() with options: {again!r:.200}; "
                    f"text={text[:300]!r}")
        sn2, pn2 = structure(again[1][1], True)
        if pn2 or nm.diff(sn, sn2) is not None:
            return ("fail", "C19/plain-load-after-options",
                    f"pvl.new.loads after a dumps() with options differs: "
                    f"{pn2[:3]} {nm.diff(sn, sn2)}; text={text[:300]!r}")
    if zlib.crc32(text.encode("utf-8", "surrogatepass")) % 3 == 1:
        # the plain call, pvl.new.loads(text) with nothing else, twice - and in between
        # the caller edits the first result below its top level (nested blocks, lists).
        # Safe without a budget: the budgeted load of this very text has just returned.
        try:
            with backstop(300, cpu=True):
                first = pvl.new.loads(text)
                edit_below_top(first)
                second = pvl.new.loads(text)
        except WallClockBackstop:
            return ("fail", "C19/plain-loads-does-not-return",
                    f"pvl.new.loads(text) used 300 s of CPU time without returning "
                    f"(the budgeted load of the same text returned); text={text[:300]!r}")
        except Exception as e:
            return ("fail", "C19/plain-loads-raises",
                    f"{type(e).__name__}: {e}; text={text[:300]!r}")
        sn3, pn3 = structure(second, True)
        if pn3 or nm.diff(so, sn3) is not None:
            return ("fail", "C19/second-plain-load-differs",
                    f"pvl.new.loads(text) again, after the first result was edited below "
                    f"its top level: {pn3[:3]} {nm.diff(so, sn3)}; text={text[:300]!r}")
    if zlib.crc32(text.encode("utf-8", "surrogatepass")) % 3 == 0 or len(text) < 120:
        why = bytes_handover(text)
        if why is not None:
            return why
    if zlib.crc32(text.encode("utf-8", "surrogatepass")) % 3 == 2 or len(text) < 120:
        why = keyword_handover(text)
        if why is not None:
            return why
    a = enc_outcome(lambda: pvl.dumps(old[1]))
    b = enc_outcome(lambda: pvl.new.dumps(new[1]))
    STATS["dumps:" + a[0]] = STATS.get("dumps:" + a[0], 0) + 1
    if a != b:
        return ("fail", "C19/dumps-differs",
                f"pvl.dumps -> {a!r:.200}; pvl.new.dumps -> {b!r:.200}; "
                f"text={text[:300]!r}")
    for enc in ENCODERS:
        a = enc_outcome(lambda: make_encoder(enc).encode(old[1]))
        b = enc_outcome(lambda: make_encoder(
            enc, group_class=PVLGroupNew, object_class=PVLObjectNew).encode(new[1]))
        STATS[f"encode:{enc}:{a[0]}"] = STATS.get(f"encode:{enc}:{a[0]}", 0) + 1
        if a != b:
            return ("fail", f"C19/encode-differs/{enc}",
                    f"{enc}: old -> {a!r:.200}; new -> {b!r:.200}; "
                    f"text={text[:300]!r}")
    return ("ok", so)


def nontrivial(tree):
    def blocks_or_dups(c):
        if c[0] in ("mod", "grp", "obj"):
            keys = [k for k, _ in c[1]]
            if len(keys) != len(set(keys)):
                return True
            return any(v[0] in ("grp", "obj") or blocks_or_dups(v) for _, v in c[1])
        return False
    return blocks_or_dups(tree)


def corpus():
    out = []
    for f in sorted(glob.glob(os.path.join(REPO, "tests", "data", "**", "*"),
                              recursive=True)):
        if os.path.isfile(f) and os.path.getsize(f) < 30000:
            try:
                out.append(pvl.get_text_from(f))
            except Exception:
                pass
    return out


@st.composite
def texts(draw):
    src = draw(st.sampled_from(["gen", "gen", "enc", "enc", "mutant"]))
    if src == "mutant":
        from props import c07
        t = draw(c07.mutants())
        if draw(st.integers(0, 9)) == 0:
            t = "\ufeff" + t
        return t, src
    if src == "gen":
        d = draw(st.sampled_from(["default", "PVL", "ODL", "PDS3", "PDS3", "PDS3"]))
        doc = draw(gt.documents(d, min_statements=1))
        return gt.seeded_layout(doc, d, draw(st.integers(0, 2 ** 32)),
                                draw(st.sampled_from(["light", "full"]))), src
    enc = draw(st.sampled_from(ENCODERS))
    case = draw(c01.cases(enc))
    if draw(st.booleans()):
        # PDS3-representable content written by an encoder that keeps GROUPs as they
        # are, so that re-dumping with the PDS3 encoder has real decisions to make
        enc = draw(st.sampled_from(["ODL", "ISIS", "PVL"]))
        case = dict(cfg={}, spec=draw(gv.modules("PDS3")))
        src = "enc-pds-content"
    try:
        return make_encoder(enc, **case["cfg"]).encode(
            gv.build_module(case["spec"])), src
    except (ValueError, TypeError):
        return "a = 1\nEND\n", "enc-refused"


STATS = {}


def record(acc, text, src):
    STATS.clear()
    r = run_text(text, arbitrary=(src == "mutant"))
    for k, v in STATS.items():
        acc.event(k, v)
    acc.event(f"{src}:{r[0]}")
    if r[0] == "skip":
        return
    nt = r[0] == "ok" and nontrivial(r[1])
    acc.case(key=text, nontrivial=nt,
             sample={"source": src, "text": text[:200]} if nt else None)
    if r[0] == "fail":
        acc.fail(r[1], dict(text=text, arbitrary=True) if src == "mutant"
                 else dict(text=text), r[2])


def random_cases(acc, n, seed):
    @hseed(seed)
    @settings(max_examples=n, database=None, deadline=None,
              phases=[Phase.generate], suppress_health_check=list(HealthCheck))
    @given(texts())
    def body(ts):
        if acc.expired():
            acc.notes["budget_exhausted"] = 1
            return
        record(acc, ts[0], ts[1])

    body()


# blocks without a statement in them, and other shapes the generators do not build; a
# text counts as well-formed when the default loader takes it without repair
EXTRA_TEXTS = [
    "Group = Archive\nEnd_Group\nEND\n", "OBJECT = o\nEND_OBJECT = o\na = 1\nEND\n",
    "BEGIN_OBJECT = o\n GROUP = g\n END_GROUP\n x = 1\nEND_OBJECT\n",
    "GROUP = g\nEND_GROUP\nGROUP = g\nEND_GROUP\n", "a = ()\nb = {}\nc = (())\nEND\n",
    "Object = o\n Object = p\n  Group = q\n  End_Group\n End_Object\nEnd_Object\nEnd\n",
    "", "END", "/* only a comment */", "a = 1;;\n", "x = \"\"\ny = ''\n",
    # a byte order mark as the first character of the text
    "\ufeffa = 1\nEND\n", "\ufeffObject = o\n x = 1\nEnd_Object\n", "\ufeff\nb = 2\n",
    "\ufeff/* c */ c = 3\n", "\ufeffEnd",
    # names that are not in Unicode NFC (a combining mark, a singleton such as OHM SIGN)
    "Tempe\u0301rature = 21.5 <degC>\nEND\n", "R_\u2126 = 50\nEND\n",
    "GROUP = a\u030a\n x\u0301 = 1\nEND_GROUP\n", "\u212b = \"\u00c5\"\n",
]


def corpus_cases(acc):
    for t in corpus():
        record(acc, t, "corpus")
    for t in EXTRA_TEXTS:
        record(acc, t, "mutant")        # judged like a mutant: kept if the loader takes it


def fuzz_one(data):
    try:
        text = data.decode("utf-8")
    except UnicodeDecodeError:
        text = data.decode("latin-1")
    r = run_text(text, arbitrary=True)
    if r[0] == "fail":
        return ("fail", (r[1], dict(text=text, arbitrary=True), r[2]))
    return (r[0], None)


def fuzz_corpus():
    from props import c07
    return [t.encode("utf-8", "replace") for t in c07.POOL + [c[:380] for c in corpus()]]


def atheris_shard(acc, seed, runs, use_corpus):
    import sys
    from vlib.fuzzrun import atheris_shard as run
    run(acc, ID, seed, runs, use_corpus, max_len=400, prop=sys.modules[__name__])


def shards(tier, seed):
    n = 350 if tier == "quick" else 5000
    out = [("random_cases", dict(n=n, seed=seed * 1000 + j)) for j in range(16)] + \
        [("corpus_cases", {})]
    if tier == "thorough":
        out += [("atheris_shard", dict(seed=seed * 100 + j + 1, runs=100000,
                                       use_corpus=bool(j % 2))) for j in range(8)]
    return out


def replay(case):
    r = run_text(case["text"], arbitrary=bool(case.get("arbitrary")))
    if r[0] == "fail":
        return (r[1], r[2])
    return None


def shrink(case, still_fails):
    lines = case["text"].split("\n")
    if len(case["text"]) > 5000:
        return case
    extra = {"arbitrary": True} if case.get("arbitrary") else {}
    kept = shrink_seq(lines, lambda ls: still_fails(dict(text="\n".join(ls), **extra)))
    return dict(text="\n".join(kept), **extra)
