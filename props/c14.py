"""C14 - date and time values keep their type, instant and time-zone meaning.

Decode : texts built by the harness's own formatter from fields - every day of
         whole years in YYYY-MM-DD and YYYY-DDD form (quick: 11 boundary years,
         thorough: every year 0001-9999), times over a boundary product of
         hour/minute/second/fraction/zone mark, date-times, ODL zone offsets for all
         whole and half hours -12..+12, seconds = 60, day 366 of non-leap years -
         through decoder.decode_datetime(text) and parser.parse("T = " + text) for
         the six variants.  Expected objects are built with the datetime
         constructors from the fields.
Encode : date/time/datetime objects (years 1-9999, microseconds 0 / ms-aligned with
         leading zeros / arbitrary, naive / UTC / whole and half hour offsets) x four
         encoders (+ time_trailing_z): the encoder refuses (ValueError) or emits text
         that an independent regex reader maps to the same instant and precision and
         that the dialect's own decoder accepts with that meaning.
"""
import datetime as dtm
import itertools
import re

from hypothesis import given, seed as hseed, settings, HealthCheck, Phase
from hypothesis import strategies as st

from vlib import normalise as nm
from vlib.budget import BudgetExceeded
from vlib.dialects import budget_parser, grammar_decoder, make_encoder, PARSERS

ID = "C14"
LEVEL = "exploration"
BUDGET = {"quick": 200, "thorough": 1200}
RULE = (
    "decode cases = (variant, literal text, expected type/fields/zone); encode cases "
    "= (encoder, options, temporal object). Non-trivial = literal with a boundary "
    "field (first/last day of month or year, hour 0/23, minute/second 0/59), a "
    "fraction, a zone mark or day-of-year form, or an object with micro-seconds or "
    "a zone; distinct by (variant, text) / (encoder, object)."
)
ASSUMPTIONS = [
    "an unmarked time is UTC for PVL, PDS3, ISIS and the default loader, naive for "
    "ODL; aware values compare by instant",
    "a decoded date whose fields differ from the written ones is a violation even "
    "for literals outside the grammar (2001-366)",
]

DEFAULT_UTC = ("PVL", "PDS3", "ISIS", "ISISv", "default")
OFFSET_READERS = ("ODL", "ISISv", "default")
LEAP_TEXT = ("PVL", "ISIS", "ISISv", "default")

QUICK_YEARS = [1, 4, 99, 100, 400, 999, 1000, 1900, 2000, 2024, 9999]



def rotated(seq, text):
    """The variants in an order that depends on the text: whichever dialect is asked
    first about a text, the others must still give their own answer."""
    import zlib
    k = zlib.crc32(text.encode("utf-8", "surrogatepass")) % len(seq)
    return list(seq[k:]) + list(seq[:k])


def EXHAUSTIVE(tier):
    return True


# ------------------------------------------------------------------ decoding
def decode_both(d, text):
    """Returns ("value", canon, pytype) | ("rejected",) | ("fail", sig, detail)
    after checking that decode_datetime and a full parse agree."""
    g, dec = grammar_decoder(d)
    try:
        v1 = dec.decode_datetime(text)
        r1 = ("value", nm.canon(v1), type(v1).__name__)
    except ValueError:
        r1 = ("rejected",)
    except Exception as e:
        return ("fail", f"C14/{d}/decode-raises/{type(e).__name__}", f"{text!r}: {e!r}")
    p = budget_parser(d)
    try:
        m = p.parse("T = " + text)
        v2 = m["T"]
        if len(m) != 1:
            r2 = ("rejected",)
        else:
            r2 = ("value", nm.canon(v2), type(v2).__name__)
    except BudgetExceeded:
        return ("fail", f"C14/{d}/spins", repr(text))
    except Exception as e:
        if type(e).__name__ not in ("LexerError", "ParseError"):
            return ("fail", f"C14/{d}/parse-raises/{type(e).__name__}",
                    f"{text!r}: {e!r}")
        r2 = ("rejected",)
    return (r1, r2)


def check_decode(d, text, expect):
    """expect: ("date", ordinal) | canonical time/dt | ("str", text) | ("reject",)
    | ("not-wrong-date", y, m, d)."""
    r = decode_both(d, text)
    if r[0] == "fail":
        return (r[1], r[2])
    r1, r2 = r
    if expect[0] == "reject":
        # decode_datetime must not produce a temporal; the parse must not produce one
        for name, rr in (("decode_datetime", r1), ("parse", r2)):
            if rr[0] == "value" and rr[2] in ("date", "time", "datetime"):
                return (f"C14/{d}/accepted-{expect[1]}",
                        f"{name}({text!r}) returned {rr[1]!r}, the dialect rejects "
                        f"this form")
        if r2[0] == "value" and d in ("ODL", "PDS3"):
            return (f"C14/{d}/accepted-{expect[1]}",
                    f"parse of 'T = {text}' returned {r2[1]!r}")
        return None
    if expect[0] == "not-wrong-date":
        for name, rr in (("decode_datetime", r1), ("parse", r2)):
            if rr[0] == "value" and rr[2] in ("date", "datetime"):
                return (f"C14/{d}/date-with-other-fields",
                        f"{name}({text!r}) returned {rr[1]!r}: not the written "
                        f"fields")
        return None
    if expect[0] == "str":
        for name, rr in (("decode_datetime", r1), ("parse", r2)):
            if rr != ("value", expect, "str"):
                return (f"C14/{d}/leap-second-text",
                        f"{name}({text!r}) -> {rr!r}, expected the text as str")
        return None
    want_type = {"date": "date", "time": "time", "dt": "datetime"}[expect[0]]
    for name, rr in (("decode_datetime", r1), ("parse", r2)):
        if rr[0] != "value":
            return (f"C14/{d}/{expect[0]}-rejected",
                    f"{name}({text!r}) was rejected, expected {expect!r}")
        if rr[2] != want_type:
            return (f"C14/{d}/{expect[0]}-wrong-type",
                    f"{name}({text!r}) is a {rr[2]}, expected {want_type}")
        if rr[1] != expect:
            return (f"C14/{d}/{expect[0]}-wrong-value",
                    f"{name}({text!r}) -> {rr[1]!r}, expected {expect!r}")
    return None


def boundary_date(dt):
    nxt = dt + dtm.timedelta(days=1) if dt < dtm.date.max else dt
    return dt.day == 1 or nxt.day == 1 or dt == dtm.date.max


def dates_of_years(acc, years):
    for y in years:
        dt = dtm.date(y, 1, 1)
        last = dtm.date(y, 12, 31)
        while True:
            if acc.expired():
                acc.notes["budget_exhausted"] = 1
                return
            doy = dt.timetuple().tm_yday
            for text in (f"{y:04d}-{dt.month:02d}-{dt.day:02d}", f"{y:04d}-{doy:03d}"):
                exp = ("date", dt.toordinal())
                for d in rotated(PARSERS, text):
                    r = check_decode(d, text, exp)
                    nt = boundary_date(dt) or "-" not in text[5:]
                    acc.case(key=d + text, nontrivial=nt,
                             sample={"variant": d, "text": text} if nt and
                             dt.day == 1 and dt.month == 3 else None)
                    if r is not None:
                        acc.fail(r[0], dict(kind="decode", variant=d, text=text,
                                            expect=list(exp)), r[1])
            acc.event("date_literals", 2)
            if dt == last:
                break
            dt += dtm.timedelta(days=1)
        # day 366 of a non-leap year is outside the grammar
        if not (y % 4 == 0 and (y % 100 != 0 or y % 400 == 0)):
            text = f"{y:04d}-366"
            for d in rotated(PARSERS, text):
                r = check_decode(d, text, ("not-wrong-date",))
                acc.case(key=d + text, nontrivial=True)
                if r is not None:
                    acc.fail(r[0], dict(kind="decode", variant=d, text=text,
                                        expect=["not-wrong-date"]), r[1])


H = [0, 1, 9, 10, 12, 23]
MS = [0, 1, 9, 10, 59]
FRACS = [None, "0", "5", "9", "00", "05", "50", "99", "000", "001", "004", "100",
         "999", "0001", "1000", "9999", "00001", "99999", "000001", "000100",
         "100000", "123456", "999999"]


def time_literals(acc, hs):
    for h in hs:
        for m, s, frac, secs in itertools.product(MS, MS, FRACS, (True, False)):
            if acc.expired():
                acc.notes["budget_exhausted"] = 1
                return
            if not secs and (s or frac is not None):
                continue
            body = f"{h:02d}:{m:02d}" + (f":{s:02d}" if secs else "")
            us = 0
            if frac is not None:
                body += "." + frac
                us = int(frac.ljust(6, "0"))
            for z in ("", "Z"):
                text = body + z
                for d in rotated(PARSERS, text):
                    off = 0 if z else None
                    exp = nm.canon_time(h, m, s if secs else 0, us, off,
                                        d in DEFAULT_UTC)
                    if d == "PDS3" and us % 1000:
                        exp = ("reject", "sub-millisecond")
                    r = check_decode(d, text, exp)
                    acc.case(key=d + text, nontrivial=True,
                             sample={"variant": d, "text": text}
                             if h == 23 and m == 59 and frac == "004" else None)
                    if r is not None:
                        acc.fail(r[0], dict(kind="decode", variant=d, text=text,
                                            expect=list(exp)), r[1])
            acc.event("time_literals", 2)


OFFSETS = []
for _h in range(-12, 13):
    for _m in (0, 30):
        OFFSETS.append((_h, _m))
OFFSETS += [(12, 45), (-12, 45), (5, 45), (-0, 45)]     # hours -12..+12, minutes 0..59


def offset_spellings(hh, mm):
    sign = "-" if hh < 0 else "+"
    a = abs(hh)
    out = []
    if mm == 0:
        out += [f"{sign}{a}", f"{sign}{a:02d}", f"{sign}{a:02d}:00"]
        if hh == 0:
            out += ["-0", "-00"]
    else:
        out += [f"{sign}{a:02d}:{mm:02d}", f"{sign}{a}:{mm:02d}"]
    return sorted(set(out))


def zone_literals(acc):
    bodies = [("12:30", 12, 30, 0, 0), ("00:00:00", 0, 0, 0, 0),
              ("23:59:59.5", 23, 59, 59, 500000), ("01:10:39.4575", 1, 10, 39, 457500)]
    dates = [None, (2001, 1, 1, "2001-01-01"), (2000, 12, 31, "2000-366"),
             (1, 1, 1, "0001-01-01"), (9999, 12, 31, "9999-12-31")]
    for (hh, mm), (btext, h, m, s, us), date in itertools.product(OFFSETS, bodies, dates):
        if acc.expired():
            acc.notes["budget_exhausted"] = 1
            return
        for sp in offset_spellings(hh, mm):
            off = (abs(hh) * 60 + mm) * (-1 if sp[0] == "-" else 1)
            text = (date[3] + "T" if date else "") + btext + sp
            for d in rotated(PARSERS, text):
                if d in OFFSET_READERS:
                    if date:
                        exp = nm.canon_dt(date[0], date[1], date[2], h, m, s, us, off,
                                          d in DEFAULT_UTC)
                    else:
                        exp = nm.canon_time(h, m, s, us, off, d in DEFAULT_UTC)
                elif d == "PDS3":
                    exp = ("reject", "zone-offset")
                else:
                    continue          # PVL / ISIS strict: not specified
                r = check_decode(d, text, exp)
                acc.case(key=d + text, nontrivial=True,
                         sample={"variant": d, "text": text}
                         if hh == -7 and mm == 30 and date is None else None)
                if r is not None:
                    acc.fail(r[0], dict(kind="decode", variant=d, text=text,
                                        expect=list(exp)), r[1])
        acc.event("zone_literals")


def leap_literals(acc):
    for h, m, frac, z, date in itertools.product(
            [0, 12, 23], [0, 59], [None, "0", "5", "123456"], ["", "Z"],
            [None, "2001-12-31", "1998-365", "0001-01-01", "2010-12-31", "2000-366",
             "1990-06-30"]):
        text = (date + "T" if date else "") + f"{h:02d}:{m:02d}:60" + \
            ("." + frac if frac else "") + z
        for d in rotated(PARSERS, text):
            exp = ("str", text) if d in LEAP_TEXT else ("reject", "seconds-60")
            r = check_decode(d, text, exp)
            acc.case(key=d + text, nontrivial=True,
                     sample={"variant": d, "text": text} if h == 23 and not date
                     and not frac else None)
            if r is not None:
                acc.fail(r[0], dict(kind="decode", variant=d, text=text,
                                    expect=list(exp)), r[1])
        acc.event("leap_literals")


def datetime_literals(acc, n, seed):
    """Hypothesis: random date x time combinations with 'T'."""
    @hseed(seed)
    @settings(max_examples=n, database=None, deadline=None,
              phases=[Phase.generate], suppress_health_check=list(HealthCheck))
    @given(st.dates(dtm.date(1, 1, 1), dtm.date(9999, 12, 31)),
           st.sampled_from(["ymd", "doy"]),
           st.integers(0, 23), st.integers(0, 59), st.integers(0, 59),
           st.one_of(st.none(), st.integers(0, 999999)),
           st.integers(1, 6), st.sampled_from(["", "Z"]),
           st.sampled_from(["hm", "hms"]))
    def body(date, form, h, m, s, us, digits, z, tform):
        if acc.expired():
            acc.notes["budget_exhausted"] = 1
            return
        dtext = (f"{date.year:04d}-{date.month:02d}-{date.day:02d}" if form == "ymd"
                 else f"{date.year:04d}-{date.timetuple().tm_yday:03d}")
        if tform == "hm":
            ttext, s, us2 = f"{h:02d}:{m:02d}", 0, 0
        else:
            ttext = f"{h:02d}:{m:02d}:{s:02d}"
            us2 = 0
            if us is not None:
                frac = f"{us:06d}"[:digits]
                ttext += "." + frac
                us2 = int(frac.ljust(6, "0"))
        text = dtext + "T" + ttext + z
        for d in rotated(PARSERS, text):
            exp = nm.canon_dt(date.year, date.month, date.day, h, m, s, us2,
                              0 if z else None, d in DEFAULT_UTC)
            if d == "PDS3" and us2 % 1000:
                exp = ("reject", "sub-millisecond")
            r = check_decode(d, text, exp)
            acc.case(key=d + text, nontrivial=True,
                     sample={"variant": d, "text": text} if d == "ODL" else None)
            if r is not None:
                acc.fail(r[0], dict(kind="decode", variant=d, text=text,
                                    expect=list(exp)), r[1])
        acc.event("datetime_literals")

    body()


# ------------------------------------------------------------------ encoding
TIME_RE = re.compile(
    r"(?P<h>\d\d):(?P<m>\d\d)(:(?P<s>\d\d)(\.(?P<f>\d+))?)?"
    r"(?P<z>Z|[+-]\d{1,2}(:\d\d)?)?$")
DATE_RE = re.compile(r"(?P<y>\d{4})-((?P<mo>\d\d)-(?P<d>\d\d)|(?P<j>\d{3}))$")


def read_time(text):
    """Independent reader: returns (h, m, s, us, off_min|None) or None."""
    mt = TIME_RE.match(text)
    if not mt:
        return None
    f = mt.group("f")
    if f is not None and len(f) > 6:
        return None
    us = int(f.ljust(6, "0")) if f else 0
    z = mt.group("z")
    if z is None:
        off = None
    elif z == "Z":
        off = 0
    else:
        sign = -1 if z[0] == "-" else 1
        hh, _, mm = z[1:].partition(":")
        off = sign * (int(hh) * 60 + int(mm or 0))
    h, m, s = int(mt.group("h")), int(mt.group("m")), int(mt.group("s") or 0)
    if h > 23 or m > 59 or s > 59:
        return None
    return (h, m, s, us, off)


def read_date(text):
    md = DATE_RE.match(text)
    if not md:
        return None
    y = int(md.group("y"))
    try:
        if md.group("j"):
            return dtm.date(y, 1, 1) + dtm.timedelta(days=int(md.group("j")) - 1)
        return dtm.date(y, int(md.group("mo")), int(md.group("d")))
    except (ValueError, OverflowError):
        return None


def read_temporal(text, default_utc):
    """canonical form of the text per the independent reader, or None."""
    if "T" in text:
        dpart, _, tpart = text.partition("T")
        dd, tt = read_date(dpart), read_time(tpart)
        if dd is None or tt is None:
            return None
        return nm.canon_dt(dd.year, dd.month, dd.day, *tt, default_utc)
    dd = read_date(text)
    if dd is not None:
        return ("date", dd.toordinal())
    tt = read_time(text)
    if tt is not None:
        return nm.canon_time(*tt, default_utc)
    return None


ENC_DEFAULT_UTC = {"PVL": True, "ODL": False, "PDS3": True, "ISIS": True}
ENC_READER = {"PVL": "PVL", "ODL": "ODL", "PDS3": "PDS3", "ISIS": "ISIS"}


import datetime as _dtm


class Stamp(_dtm.datetime):
    """A subclass of datetime.datetime (what pandas.Timestamp, pendulum and freezegun
    hand out): a date-time like any other."""


class Day(_dtm.date):
    pass


class Clock(_dtm.time):
    pass


def obj_from_spec(v):
    from vlib.gen_values import build_value
    o = build_value({k: x for k, x in v.items() if k != "sub"})
    if v.get("sub"):
        if isinstance(o, _dtm.datetime):
            return Stamp(o.year, o.month, o.day, o.hour, o.minute, o.second,
                         o.microsecond, tzinfo=o.tzinfo)
        if isinstance(o, _dtm.date):
            return Day(o.year, o.month, o.day)
        if isinstance(o, _dtm.time):
            return Clock(o.hour, o.minute, o.second, o.microsecond, tzinfo=o.tzinfo)
    return o


def expect_from_spec(v, default_utc):
    return nm.expect_value({k: x for k, x in v.items() if k != "sub"},
                           nm.Norm(default_utc=default_utc))




def check_encode(enc, cfg, spec):
    obj = obj_from_spec(spec)
    try:
        e = make_encoder(enc, **cfg)
        text = e.encode_datetype(obj)
    except ValueError:
        return ("refused", None)
    except Exception as ex:
        return ("fail", f"C14/{enc}/encode-raises/{type(ex).__name__}",
                f"{spec!r}: {ex!r}")
    du = ENC_DEFAULT_UTC[enc]
    exp = expect_from_spec(spec, du)
    got = read_temporal(text, du)
    if got is None:
        return ("fail", f"C14/{enc}/encoded-text-not-in-grammar",
                f"{spec!r} encoded as {text!r}, which the reference reader cannot "
                f"read as a {exp[0]}")
    if got != exp:
        return ("fail", f"C14/{enc}/encoded-text-denotes-other-value",
                f"{spec!r} encoded as {text!r} which denotes {got!r}, expected "
                f"{exp!r}")
    g, dec = grammar_decoder(ENC_READER[enc])
    try:
        back = nm.canon(dec.decode_datetime(text))
    except ValueError:
        return ("fail", f"C14/{enc}/own-decoder-rejects",
                f"{spec!r} encoded as {text!r}; {ENC_READER[enc]} decoder rejects it")
    if back != exp:
        return ("fail", f"C14/{enc}/own-decoder-differs",
                f"{spec!r} encoded as {text!r}; own decoder reads {back!r}, "
                f"expected {exp!r}")
    return ("ok", text)


US_VALUES = [0, 4000, 123000, 1000, 999000, 500000, 1, 999999, 123456, 100, 10]
TZ_VALUES = [None, 0] + [h * 60 + m for h, m in OFFSETS if (h, m) != (0, 0)] + \
    [-(abs(h) * 60 + m) for h, m in OFFSETS if h < 0 and m] + \
    [780, 840, 810, -780, -840, 1439, -1439, 721, -721, 765, 1, -1]   # beyond ODL's +-12 h: written faithfully or refused


def encode_grid(acc, enc):
    cfgs = [{}]
    if enc == "PDS3":
        cfgs.append({"time_trailing_z": False})
    dates = [(1, 1, 1), (9, 9, 9), (99, 12, 31), (999, 1, 31), (1000, 2, 28),
             (2000, 2, 29), (2024, 12, 31), (9999, 12, 31)]
    times = [(0, 0, 0), (0, 0, 1), (1, 2, 3), (12, 0, 0), (23, 59, 59), (9, 5, 0)]
    for cfg in cfgs:
        for d in dates:
            spec = {"date": list(d)}
            _rec(acc, enc, cfg, spec)
        for (h, m, s), us, tz in itertools.product(times, US_VALUES, sorted(
                set(TZ_VALUES), key=lambda x: (x is not None, x)) + ["rule"]):
            if acc.expired():
                acc.notes["budget_exhausted"] = 1
                return
            _rec(acc, enc, cfg, {"time": [h, m, s, us, tz]})
            for d in (dates[0], dates[3], dates[5], dates[7]):
                _rec(acc, enc, cfg, {"dt": list(d) + [h, m, s, us, tz]})
            if us in (0, 123456) and tz in (None, 0, 330, -480):
                # instances of subclasses of the three classes
                _rec(acc, enc, cfg, {"time": [h, m, s, us, tz], "sub": True})
                _rec(acc, enc, cfg, {"dt": list(dates[5]) + [h, m, s, us, tz], "sub": True})
                _rec(acc, enc, cfg, {"date": list(dates[5]), "sub": True})


def _rec(acc, enc, cfg, spec):
    r = check_encode(enc, cfg, spec)
    acc.event(f"encode:{enc}:{r[0]}")
    nt = True
    acc.case(key=repr((enc, cfg, spec)), nontrivial=nt,
             sample={"encoder": enc, "object": spec, "text": r[1]}
             if r[0] == "ok" and "time" in spec and spec["time"][3] == 4000
             and spec["time"][4] in (None, 330) else None)
    if r[0] == "fail":
        acc.fail(r[1], dict(kind="encode", enc=enc, cfg=cfg, spec=spec), r[2])


def encode_random(acc, n, seed):
    from vlib import gen_values as gv

    @hseed(seed)
    @settings(max_examples=n, database=None, deadline=None,
              phases=[Phase.generate], suppress_health_check=list(HealthCheck))
    @given(st.sampled_from(["PVL", "ODL", "PDS3", "ISIS"]),
           st.one_of(gv.dates(), gv.times(), gv.datetimes(),
                     st.builds(lambda h, m, s, us, tz: {"time": [h, m, s, us, tz]},
                               st.integers(0, 23), st.integers(0, 59),
                               st.integers(0, 59), st.integers(0, 999999),
                               st.sampled_from(TZ_VALUES))),
           st.booleans())
    def body(enc, spec, ttz):
        if acc.expired():
            acc.notes["budget_exhausted"] = 1
            return
        cfg = {"time_trailing_z": False} if (enc == "PDS3" and not ttz) else {}
        _rec(acc, enc, cfg, spec)

    body()


def shards(tier, seed):
    out = []
    years = QUICK_YEARS if tier == "quick" else list(range(1, 10000))
    chunk = 1 if tier == "quick" else 80
    for i in range(0, len(years), chunk):
        out.append(("dates_of_years", dict(years=years[i:i + chunk])))
    for h in H:
        out.append(("time_literals", dict(hs=[h])))
    out.append(("zone_literals", {}))
    out.append(("leap_literals", {}))
    n = 150 if tier == "quick" else 6000
    for j in range(4):
        out.append(("datetime_literals", dict(n=n, seed=seed * 1000 + j)))
    for enc in ("PVL", "ODL", "PDS3", "ISIS"):
        out.append(("encode_grid", dict(enc=enc)))
    for j in range(4):
        out.append(("encode_random", dict(n=n * 2, seed=seed * 1000 + 50 + j)))
    return out


def replay(case):
    if case["kind"] == "decode":
        exp = case["expect"]
        exp = tuple(exp)
        return check_decode(case["variant"], case["text"], exp)
    r = check_encode(case["enc"], case["cfg"], case["spec"])
    if r[0] == "fail":
        return (r[1], r[2])
    return None
