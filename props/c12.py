"""C12 - encoder output obeys the surface rules of its dialect.

Domain : module specs the encoder accepts (C01 strategies) x four encoders x options.
Oracle : vlib.surface.check - an independent quote-aware scanner and statement
         reader of the output text (no pvl code) asserting the dialect's character
         set, line ends, keywords, delimiters, parameter-name form, units placement,
         symbol strings, tabs, final END, indentation, '=' alignment and block
         closing.
"""
from hypothesis import given, seed as hseed, settings, HealthCheck, Phase
from hypothesis import strategies as st

from props import c01
from vlib import gen_values as gv
from vlib import surface
from vlib.dialects import make_encoder, ENCODERS

ID = "C12"
LEVEL = "exploration"
BUDGET = {"quick": 200, "thorough": 1200}
RULE = (
    "case = (encoder, options, module spec) as in C01; refusals are skipped and "
    "counted. Non-trivial = output with >= 1 block, >= 1 wrapped statement (more "
    "lines than statements) or a non-default option; distinct by the whole case."
)
ASSUMPTIONS = [
    "line-end rule applies outside quoted strings (raw CR/LF inside a string is "
    "user data); ODL/PDS3 line end and delimiter follow the encoder's newline / "
    "end_delimiter options (CR LF and none by default, fixed for PDS3)",
    "'=' alignment is required among sibling assignments that occupy one line of "
    "at most width characters including the line end",
]

DEFAULTS = {
    "PVL": dict(indent=2, width=80, aggregation_end=True, end_delimiter=True,
                newline="\n"),
    "ODL": dict(indent=2, width=80, aggregation_end=True, end_delimiter=False,
                newline="\r\n"),
    "PDS3": dict(indent=2, width=80, aggregation_end=True, end_delimiter=False,
                 newline="\r\n", tab_replace=4),
    "ISIS": dict(indent=2, width=80, aggregation_end=True, end_delimiter=False,
                 newline="\n"),
}


def effective(enc, cfg):
    eff = dict(DEFAULTS[enc])
    for k, v in cfg.items():
        if k in eff or k == "tab_replace":
            eff[k] = v
    return eff


DECODER_ONLY = {
    # an encoder of a dialect built with decoder= and no grammar=: it keeps its own
    # grammar (only PVLEncoder documents that it takes the decoder's)
    "ISIS": ["PVLDecoder()", "OmniDecoder()", "PVLDecoder(real_cls=Decimal)"],
    "ODL": ["OmniDecoder(grammar=OmniGrammar())", "ODLDecoder()", "PDSLabelDecoder()"],
    "PDS3": ["OmniDecoder(grammar=OmniGrammar())", "PDSLabelDecoder()", "ODLDecoder()"],
}


def build_encoder(case):
    enc, cfg = case["enc"], case["cfg"]
    k = case.get("dec")
    if k is None or enc not in DECODER_ONLY:
        return make_encoder(enc, **cfg)
    import pvl.decoder as D
    import pvl.grammar as G
    from decimal import Decimal
    ns = dict(vars(D))
    ns.update(vars(G))
    ns["Decimal"] = Decimal
    dec = eval(DECODER_ONLY[enc][k % 3], ns)
    return type(make_encoder(enc))(decoder=dec, **cfg)


def run_case(case):
    enc, cfg = case["enc"], case["cfg"]
    try:
        m = gv.build_module(case["spec"])
        text = build_encoder(case).encode(m)
    except (ValueError, TypeError) as e:
        return ("refused", type(e).__name__)
    except Exception as e:
        return ("fail", f"C12/{enc}/encode-raises/{type(e).__name__}", repr(e))
    problems = surface.check(text, enc, effective(enc, cfg))
    if problems:
        rule, msg = problems[0]
        return ("fail", f"C12/{enc}/{rule}", f"{msg}; cfg={cfg}; text={text!r}")
    return ("ok", text)


def nontrivial(case, text):
    if case["cfg"]:
        return True
    if any(isinstance(v, dict) and ("grp" in v or "obj" in v) for _, v in case["spec"]):
        return True
    return text.count("\n") > len(case["spec"]) + 1


def random_cases(acc, enc, n, seed):
    # all four encoders take turns in every process (anything one of them leaves behind
    # in the process is met by the others); *enc* only rotates the order
    order = list(ENCODERS[ENCODERS.index(enc):] + ENCODERS[:ENCODERS.index(enc)])

    decimals = st.sampled_from(["1.50", "-0", "0E-10", "1E+999", "NaN", "sNaN", "Infinity",
                                "-Infinity", "123456789.123456789123456789"])
    extra = st.one_of(
        st.just(None), st.just(None), st.just(None),
        decimals.map(lambda t: ["DECIMAL_VALUE", {"dec": t}]),
        decimals.map(lambda t: ["DECIMAL_QUANTITY", {"q": [{"dec": t}, "K"]}]),
        decimals.map(lambda t: ["DECIMALS", {"seq": [{"q": [{"dec": t}, "m"]}, {"dec": t}]}]))

    @hseed(seed)
    @settings(max_examples=n, database=None, deadline=None,
              phases=[Phase.generate],
              suppress_health_check=list(HealthCheck))
    @given(st.sampled_from(order).flatmap(c01.cases), st.sampled_from([None] * 5 + [0, 1, 2]),
           extra)
    def body(case, dec, extra_item):
        enc = case["enc"]
        case = dict(case, dec=dec if enc in DECODER_ONLY else None)
        if extra_item is not None:
            # decimal.Decimal values (what a decoder with real_cls=Decimal returns),
            # special values included: written as a number or refused
            case["spec"] = list(case["spec"]) + [extra_item]
        if acc.expired():
            acc.notes["budget_exhausted"] = 1
            return
        r = run_case(case)
        acc.event(f"{enc}:{r[0]}")
        if r[0] == "refused":
            return
        nt = r[0] == "ok" and nontrivial(case, r[1])
        acc.case(key=repr(case), nontrivial=nt,
                 sample={"enc": enc, "cfg": case["cfg"], "text": r[1][:300]}
                 if nt else None)
        if r[0] == "fail":
            acc.fail(r[1], case, r[2])

    body()


def shards(tier, seed):
    n = 350 if tier == "quick" else 9000
    return [("random_cases", dict(enc=ENCODERS[j % 4], n=n, seed=seed * 1000 + j))
            for j in range(16)]


def replay(case):
    r = run_case(case)
    if r[0] == "fail":
        return (r[1], r[2])
    return None


def shrink(case, still_fails):
    return c01.shrink(case, still_fails)
