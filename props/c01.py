"""C01 - dump then strict load in the same dialect returns the original module.

Domain : module specs (vlib.gen_values) for the dialect x encoder options.
Oracle : encoder refuses with ValueError/TypeError (allowed, counted) or the text
         is loaded by the strict parser of the same dialect into a module whose
         canonical form equals normalise(original) (vlib.normalise).
"""
from hypothesis import given, seed as hseed, settings, HealthCheck, Phase
from hypothesis import strategies as st

from vlib import gen_values as gv
from vlib import normalise as nm
from vlib.budget import BudgetExceeded
from vlib.dialects import make_encoder, budget_parser, ENCODERS, STRICT_READER
from vlib.shrink import shrink_seq

ID = "C01"
LEVEL = "exploration"
BUDGET = {"quick": 200, "thorough": 1200}
RULE = (
    "case = (encoder in {PVL, ODL, PDS3, ISIS}, encoder options, module spec "
    "generated for that dialect: nested groups/objects, duplicate keys, None, bool, "
    "int, finite float, strings from a hazard pool and over the dialect character "
    "set, date/time/datetime with naive/UTC/offset zones, quantities, nested "
    "sequences and sets). Refusals (ValueError/TypeError) are allowed and counted. "
    "Non-trivial = the module was encoded and reloaded and contains at least one "
    "hazard (string needing a quoting decision, temporal, quantity, nested "
    "sequence/set, block, duplicate key) or a non-default option; distinct by the "
    "whole case."
)
ASSUMPTIONS = [
    "normalisations allowed: upper-cased parameter names (ODL/PDS3), ODL-family "
    "string folding, naive time -> UTC (PVL, PDS3, ISIS), GROUP->OBJECT (PDS3), "
    "set == frozenset; aware temporals compare by instant; the PDS3 encoder's "
    "documented tab_replace option turns a TAB inside a units expression into blanks",
    "ISIS strict reader = PVLParser(ISISGrammar, PVLDecoder(ISISGrammar)), the "
    "pair ISISEncoder itself uses",
]


def cfgs(enc):
    common = dict(
        indent=st.sampled_from([2, 2, 0, 1, 3, 4, 8]),
        width=st.sampled_from([80, 80, 80, 20, 30, 40, 60, 100, 132, 200]),
        aggregation_end=st.booleans(),
    )
    if enc == "PDS3":
        extra = dict(
            convert_group_to_object=st.sampled_from([True, True, True, False]),
            tab_replace=st.sampled_from([4, 4, 0, 1, 8]),
            symbol_single_quote=st.booleans(),
            time_trailing_z=st.booleans(),
        )
    else:
        extra = dict(
            end_delimiter=st.booleans(),
            newline=st.sampled_from(["\n", "\r\n"]),
        )
    full = st.fixed_dictionaries({**common, **extra})
    return st.one_of(st.just({}), full, full)


def cases(enc):
    return st.fixed_dictionaries(
        {"enc": st.just(enc), "cfg": cfgs(enc), "spec": gv.modules(enc),
         "twice": st.sampled_from([False, False, False, True]),
         # what the caller hands to the encoder: a PVLModule, or (names unique at the top
         # level) a plain dict / OrderedDict / read-only mapping holding the same values
         "top": st.sampled_from([None] * 5 + ["dict", "odict", "proxy"])})


def value_feature(v):
    """Hazard class of a value spec, used in signatures and histograms."""
    k = gv.kind(v)
    if k == "str":
        if v == "":
            return "str:empty"
        if v.casefold() in ("null", "true", "false"):
            return "str:keyword"
        if v.casefold() in ("end", "group", "object", "end_group", "end_object",
                            "begin_group", "begin_object"):
            return "str:reserved-word"
        if any(c in v for c in "\n\r\v\f"):
            return "str:multiline"
        if any(c in v for c in " \t"):
            return "str:spaces"
        return "str:word"
    return k


def run_case(case, reader=None, prop="C01", check_errors=False):
    """Returns ("ok"|"refused", info) or ("fail", signature, detail)."""
    enc = case["enc"]
    spec = case["spec"]
    try:
        m = gv.build_module(spec)
    except Exception as e:        # generator produced something unbuildable
        return ("skip", f"build: {type(e).__name__}")
    top = case.get("top")
    if top and len({k for k, _ in spec}) == len(spec):
        import collections
        import types
        m = {"dict": dict, "odict": collections.OrderedDict,
             "proxy": lambda it: types.MappingProxyType(dict(it))}[top](list(m.items()))
    try:
        encoder = make_encoder(enc, **case["cfg"])
        if case.get("twice"):
            # the encoder object has been used before - for this very module, whatever
            # came of it: what counts is what it writes now
            try:
                encoder.encode(gv.build_module(spec))
            except Exception:
                pass
        text = encoder.encode(m)
    except (ValueError, TypeError) as e:
        return ("refused", type(e).__name__)
    except Exception as e:
        return ("fail", f"{prop}/{enc}/encode-raises/{type(e).__name__}",
                f"encode raised {type(e).__name__}: {e}")
    reader = reader or STRICT_READER[enc]
    p = budget_parser(reader)
    try:
        m2 = p.parse(text)
    except BudgetExceeded:
        return ("fail", f"{prop}/{enc}/reload-spins", f"text={text!r}")
    except Exception as e:
        return ("fail", f"{prop}/{enc}/reload-fails/{type(e).__name__}",
                f"{reader} load raised {type(e).__name__}: "
                f"{str(e)[:200]}; text={text!r}")
    n = nm.norm_for(enc, reader, case["cfg"])
    exp = nm.expect_module(spec, n)
    got = nm.canon(m2)
    d = nm.diff(exp, got, allow_g2o=(enc == "PDS3"))
    if d is None:
        if check_errors and list(getattr(m2, "errors", [])) != []:
            return ("fail", f"{prop}/{enc}/errors-not-empty",
                    f"module.errors == {m2.errors!r}; text={text!r}")
        return ("ok", text)
    path, e, g = d
    ek = _dk(e, path)
    gk = _dk(g, path)
    return ("fail", f"{prop}/{enc}/diff/{ek}->{gk}",
            f"at {path}: expected {e!r} got {g!r}; text={text!r}")


def _dk(x, path):
    if x == "<nothing>":
        return "nothing"
    if path.endswith(".key"):
        return "key"
    if path.endswith(".units"):
        return "units"
    if isinstance(x, tuple) and len(x) == 2 and isinstance(x[0], str) and \
            isinstance(x[1], tuple) and x[0] not in ("seq", "set", "grp", "obj",
                                                     "mod", "str", "int", "bool",
                                                     "float", "date"):
        return "item"
    if isinstance(x, str):
        return x.split()[0]
    return nm.kind_of_canon(x)


HAZARD_KINDS = {"date", "time", "dt", "q", "seq", "set", "grp", "obj"}


def nontrivial(case):
    spec = case["spec"]
    if case["cfg"]:
        return len(spec) > 0
    keys = [k for k, _ in spec]
    if len(keys) != len(set(keys)):
        return True
    for v in gv.walk_values(spec):
        k = gv.kind(v)
        if k in HAZARD_KINDS:
            return True
        if k == "str" and value_feature(v) != "str:word":
            return True
    return False


def random_cases(acc, enc, n, seed):
    # every shard (= process) interleaves all four encoders, so that anything one
    # encoder leaves behind in the process is seen by the others; *enc* only rotates
    # the order
    order = list(ENCODERS[ENCODERS.index(enc):] + ENCODERS[:ENCODERS.index(enc)])

    @hseed(seed)
    @settings(max_examples=n, database=None, deadline=None,
              phases=[Phase.generate],
              suppress_health_check=list(HealthCheck))
    @given(st.sampled_from(order).flatmap(cases))
    def body(case):
        enc = case["enc"]
        if acc.expired():
            acc.notes["budget_exhausted"] = 1
            return
        r = run_case(case)
        acc.event(f"{enc}:{r[0]}")
        if r[0] == "skip":
            return
        nt = r[0] == "ok" and nontrivial(case)
        acc.case(key=repr(case), nontrivial=nt,
                 sample={"enc": enc, "cfg": case["cfg"], "text": r[1][:300]}
                 if nt else None)
        if r[0] == "refused":
            for v in gv.walk_values(case["spec"]):
                pass
            acc.event(f"{enc}:refused:{r[1]}")
        for v in gv.walk_values(case["spec"]):
            acc.event("value:" + value_feature(v))
        if r[0] == "fail":
            acc.fail(r[1], case, r[2])

    body()


def temporal_grid(acc, run=None, prop="C01"):
    """Every zone value x a few clock/date boundary values x every encoder, each as
    a one-statement module and inside a sequence (always run, deterministic)."""
    run = run or run_case
    times_ = [(0, 0, 0, 0), (10, 54, 0, 129000), (23, 59, 59, 999000), (1, 2, 3, 4000),
              (12, 0, 0, 1)]
    dates_ = [(2001, 1, 1), (999, 12, 31), (9999, 12, 31)]
    for enc in ENCODERS:
        for tz in gv.TZ_MINUTES:
            specs = []
            for (h, m, s_, us) in times_:
                specs.append({"time": [h, m, s_, us, tz]})
                specs.append({"dt": list(dates_[(h + m) % 3]) + [h, m, s_, us, tz]})
            for v in specs:
                for spec in ([["T", v]], [["S", {"seq": [v, 1]}]]):
                    # (options that touch the writing of times)
                    for cfg in ({}, {"time_trailing_z": False}) if enc == "PDS3" \
                            else ({},):
                        case = {"enc": enc, "cfg": cfg, "spec": spec}
                        r = run(case)
                        acc.event(f"grid:{enc}:{r[0]}")
                        acc.case(key="grid" + repr(case), nontrivial=(r[0] == "ok"))
                        if r[0] == "fail":
                            acc.fail(r[1], case, r[2])


def sweep_specs(enc):
    """Small modules (1-2 statements) rich in places where a wrapped line could break:
    bare words and quoted strings that end in a dash, values with units, sequences."""
    dashy = st.sampled_from(["north-", "a-", "x-y-", "pre- post-", "-", "ab -", "a-b",
                             "1-", "N/A", "word", "two words", "it's-"])
    units = gv.units(enc)
    val = st.one_of(
        st.tuples(dashy, units).map(lambda t: {"q": [t[0], t[1]]}),
        st.tuples(st.integers(-5, 10 ** 12), units).map(lambda t: {"q": [t[0], t[1]]}),
        st.lists(st.one_of(dashy, st.integers(0, 99), gv.strings(enc)), min_size=1,
                 max_size=6).map(lambda l: {"seq": l}),
        st.lists(st.one_of(dashy, st.integers(0, 99)), min_size=1,
                 max_size=4).map(lambda l: {"set": l}),
        dashy, gv.strings(enc), gv.values(enc))
    item = st.tuples(gv.names(enc), val).map(list)
    block = st.tuples(gv.block_names(), st.lists(item, min_size=1, max_size=2)).map(
        lambda t: [t[0], {"grp": t[1]}])
    return st.lists(st.one_of(item, item, item, block), min_size=1, max_size=2)


def width_sweep(acc, enc, n, seed, run=None, prop="C01"):
    """Each small module is written at *every* width from 8 up to the length of its
    longest unwrapped line, so that a line break falls at every possible place."""
    run = run or run_case

    @hseed(seed)
    @settings(max_examples=n, database=None, deadline=None,
              phases=[Phase.generate],
              suppress_health_check=list(HealthCheck))
    @given(cfgs(enc), sweep_specs(enc))
    def body(cfg, spec):
        if acc.expired():
            acc.notes["budget_exhausted"] = 1
            return
        try:
            flat = make_encoder(enc, **dict(cfg, width=10 ** 6)).encode(
                gv.build_module(spec))
        except Exception:
            acc.event(f"sweep:{enc}:refused-unwrapped")
            return
        longest = max(len(ln) for ln in flat.splitlines() or [""])
        for width in range(8, min(longest, 140) + 2):
            case = {"enc": enc, "cfg": dict(cfg, width=width), "spec": spec}
            r = run(case)
            acc.event(f"sweep:{enc}:{r[0]}")
            if r[0] == "skip":
                continue
            acc.case(key=repr(case), nontrivial=(r[0] == "ok"))
            if r[0] == "fail":
                acc.fail(r[1], case, r[2])

    body()


def shards(tier, seed):
    n = 350 if tier == "quick" else 10000
    out = []
    for j in range(16):
        enc = ENCODERS[j % 4]
        out.append(("random_cases", dict(enc=enc, n=n, seed=seed * 1000 + j)))
    out.append(("temporal_grid", {}))
    for j in range(8):
        out.append(("width_sweep", dict(enc=ENCODERS[j % 4], seed=seed * 1000 + 500 + j,
                                        n=25 if tier == "quick" else 800)))
    return out


def replay(case):
    r = run_case(case)
    if r[0] == "fail":
        return (r[1], r[2])
    return None


def shrink_spec(spec, pred):
    """Greedy structural shrink of a module spec."""
    spec = shrink_seq(spec, pred)
    changed = True
    while changed:
        changed = False
        for i, (k, v) in enumerate(spec):
            for cand in simpler_values(v):
                trial = spec[:i] + [[k, cand]] + spec[i + 1:]
                if pred(trial):
                    spec = trial
                    changed = True
                    break
            if changed:
                break
    return spec


def simpler_values(v):
    if isinstance(v, dict):
        for tag in ("seq", "set"):
            if tag in v:
                for i in range(len(v[tag])):
                    yield {tag: v[tag][:i] + v[tag][i + 1:]}
                for x in v[tag]:
                    yield x
        if "q" in v:
            yield v["q"][0]
        for tag in ("grp", "obj"):
            if tag in v:
                for i in range(len(v[tag])):
                    if len(v[tag]) > 1:
                        yield {tag: v[tag][:i] + v[tag][i + 1:]}
    elif isinstance(v, str) and len(v) > 1:
        yield v[: len(v) // 2]
        yield v[len(v) // 2:]
        yield v[1:]
        yield v[:-1]


def shrink(case, still_fails):
    cur = dict(case)
    if cur["cfg"] and still_fails({**cur, "cfg": {}}):
        cur["cfg"] = {}
    cur["spec"] = shrink_spec([list(i) for i in cur["spec"]],
                              lambda s: still_fails({**cur, "spec": s}))
    return cur
