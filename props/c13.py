"""C13 - dumping is repeatable and does not damage its argument.

Domain : module specs of C01 (emphasis: duplicate block names, group-only modules,
         groups that are not PDS groups, nested groups) x four encoders x options x
         call style {one encoder instance re-used, one encoder instance that writes
         other modules sharing block objects in between, pvl.dumps with a fresh
         encoder, pvl.dumps with default arguments} x 3 repeated calls on the same object.
Oracle : harness snapshot (class names, keys, order, multiplicity, canonical value
         of every leaf) before == after every call, except that
         under PDS3 a PVLGroup may have become a PVLObject with identical content;
         every call returns the same text (or refuses with the same exception type).
"""
import pvl
from hypothesis import given, seed as hseed, settings, HealthCheck, Phase
from hypothesis import strategies as st

from props import c01
from vlib import gen_values as gv
from vlib import normalise as nm
from vlib.dialects import make_encoder, ENCODERS

ID = "C13"
LEVEL = "exploration"
BUDGET = {"quick": 200, "thorough": 1200}
RULE = (
    "case = (encoder, options, call style, module spec). 40% of specs are forced "
    "into block-heavy shapes: only groups at top level, duplicate block names, a "
    "group with a duplicate key / nested group / data pointer (not a PDS group). "
    "Non-trivial = module with >= 1 block; distinct by the whole case."
)
ASSUMPTIONS = [
    "the only permitted change of the argument is PVLGroup -> PVLObject with "
    "identical content under the PDS3 encoder",
]


def snap(m, with_class=True):
    """(structure with classes, list of leaf ids)."""
    ids = []

    def walk(x):
        tag = nm.container_tag(x)
        if tag is not None:
            return (type(x).__name__ if with_class else "C",
                    tuple((k, walk(v)) for k, v in list(x.items())))
        ids.append(id(x))
        return nm.canon(x)

    return walk(m), ids


def declass(s):
    if isinstance(s, tuple) and len(s) == 2 and isinstance(s[0], str) and \
            isinstance(s[1], tuple) and s[0].startswith("PVL"):
        return ("C", tuple((k, declass(v)) for k, v in s[1]))
    return s


def only_g2o(before, after):
    """True if after == before except PVLGroup -> PVLObject."""
    if isinstance(before, tuple) and len(before) == 2 and isinstance(before[0], str) \
            and before[0].startswith("PVL") and isinstance(before[1], tuple):
        if not (isinstance(after, tuple) and len(after) == 2):
            return False
        if before[0] != after[0] and not (before[0] == "PVLGroup"
                                          and after[0] == "PVLObject"):
            return False
        if len(before[1]) != len(after[1]):
            return False
        return all(kb == ka and only_g2o(vb, va)
                   for (kb, vb), (ka, va) in zip(before[1], after[1]))
    return before == after


@st.composite
def block_heavy(draw, enc):
    name = gv.block_names()
    key = gv.names(enc)
    val = st.one_of(gv.ints(), gv.strings(enc), st.none())
    plain = st.lists(st.tuples(key, val).map(list), min_size=1, max_size=3,
                     unique_by=lambda t: t[0].upper())
    dupkey = plain.map(lambda l: l + [[l[0][0], 7]])
    pointer = plain.map(lambda l: l + [["^PTR", 5]])
    nested = st.tuples(plain, name, plain).map(
        lambda t: t[0] + [[t[1], {"grp": t[2]}]])
    body = st.one_of(plain, plain, dupkey, pointer, nested)
    n = draw(st.integers(1, 4))
    names_ = draw(st.lists(name, min_size=n, max_size=n))
    if n > 1 and draw(st.booleans()):
        names_[draw(st.integers(1, n - 1))] = names_[0]      # duplicate block name
    kinds = draw(st.lists(st.sampled_from(["grp", "grp", "grp", "obj"]),
                          min_size=n, max_size=n))
    if draw(st.booleans()):
        kinds = ["grp"] * n                                   # group-only module
    items = [[nm_, {k: draw(body)}] for nm_, k in zip(names_, kinds)]
    if draw(st.integers(0, 9)) < 3:
        # a valid PDS group next to an OBJECT of its own
        items.append([draw(name), {"grp": draw(plain)}])
        items.append([draw(name), {"obj": draw(plain)}])
    if draw(st.booleans()):
        items.insert(draw(st.integers(0, len(items))), [draw(key), draw(val)])
    if draw(st.integers(0, 3)) == 0 and items:
        # an assignment that shares its key with a block
        items.insert(0, [items[-1][0], 1])
    return items


# small modules that make an encoder give up part-way, one refusal site each (which
# of them a given encoder refuses depends on the dialect)
PROVOKERS = [
    [["A", {"set": [1.5]}]], [["A", {"set": ["it's"]}]], [["A", {"set": ["a\nb"]}]],
    [["A", {"seq": [{"seq": [{"seq": [1]}]}]}]],
    [["A", {"q": [1, "bad unit!"]}]], [["A", {"q": ["s", "m"]}]], [["A", "\u00e9"]],
    [["A", "both ' and \""]], [["A", "x\"\n"]], [["a-b", 1]], [["A" * 31, 1]],
    [["A", {"time": [1, 2, 3, 0, None]}]], [["A", {"time": [1, 2, 3, 7, 0]}]],
    [["A", {"time": [1, 2, 3, 0, 90]}]], [["A", float("inf")]],
    [["A", {"dt": [2001, 1, 1, 1, 2, 3, 7, 60]}]],
    [["g", {"grp": [["h", {"grp": [["x", 1]]}]]}]], [["g-", {"grp": [["x", 1]]}]],
    [["A", 1], ["B", "AB CD"], ["C", {"set": ["q r", 2.5]}]],
    [["A", "\x01"]], [["A", {"q": [1, "m**x"]}]],
]


class Metres(float):
    """A number that also looks like a value with units (but is not a registered
    quantity class): encoders write it as the float it is."""
    def __new__(cls, value, units="m"):
        self = float.__new__(cls, value)
        self.units = units
        return self

    value = property(lambda self: float(self))


def cases(enc):
    spec = st.one_of(gv.modules(enc), gv.modules(enc), gv.modules(enc),
                     block_heavy(enc), block_heavy(enc))
    return st.fixed_dictionaries({
        "enc": st.just(enc), "cfg": c01.cfgs(enc), "spec": spec,
        # unrelated modules (many of which the encoder refuses part-way) that the
        # same instance writes between the calls of the interleaved style
        "others": st.lists(st.one_of(st.sampled_from(PROVOKERS),
                                     st.sampled_from(PROVOKERS), gv.modules(enc)),
                           min_size=1, max_size=3),
        "iterval": st.sampled_from([None] * 9 + [0, 1, 2, 3, 4]),
        # sets as mutable Python sets (what ODLParser returns and what a caller writes
        # as {1, "a"}) instead of frozensets
        "thaw": st.sampled_from([False, False, True]),
        "style": st.sampled_from(["instance", "instance-interleaved",
                                  "instance-interleaved", "dumps-fresh",
                                  "dumps-default", "other-encoder-registers",
                                  "shared-decoder", "other-dialects-between",
                                  "new-dumps-between", "dumps-options-between"])})


def thaw_sets(x):
    """Replaces every frozenset below *x* by an equal mutable set (in place)."""
    from pvl.collections import Quantity
    def conv(v):
        if isinstance(v, frozenset):
            return set(v)
        if isinstance(v, Quantity) and isinstance(v.value, (frozenset, list)):
            return Quantity(conv(v.value), v.units)
        thaw_sets(v)
        return v
    if isinstance(x, list):
        for i, v in enumerate(x):
            x[i] = conv(v)
    elif hasattr(x, "getall") and hasattr(x, "insert"):
        pairs = [(k, conv(v)) for k, v in list(x.items())]
        if any(a is not b for (_, a), (_, b) in zip(pairs, list(x.items()))):
            x.clear()
            x.extend(pairs)
    return x


def run_case(case):
    enc, cfg, style = case["enc"], case["cfg"], case["style"]
    m = gv.build_module(case["spec"])
    if case.get("thaw"):
        thaw_sets(m)
    before, ids = snap(m)
    encoder = make_encoder(enc, **cfg)
    unrelated = [gv.build_module(o) for o in case.get("others", [])]
    if case.get("iterval") is not None:
        # a value that can be read only once (what map(), zip() or a generator give):
        # refused or written - but the same every time, and still there afterwards
        kinds = [lambda l: iter(l), lambda l: map(int, l), lambda l: (x for x in l),
                 lambda l: zip(l, l), lambda l: reversed(l)]
        m.append("ONE_SHOT", kinds[case["iterval"] % len(kinds)]([10, 20, 30]))
        before, ids = snap(m)
    if style == "other-encoder-registers":
        # the module holds a float subclass with .value/.units; between the calls
        # *another* encoder object is told to treat that class as a quantity
        m.append("QUANTITY_LIKE", Metres(1.5))
        before, ids = snap(m)
    if style == "shared-decoder":
        # the caller builds one decoder and hands it to every encoder it makes; the
        # encoder under test takes its grammar from that decoder
        from vlib.dialects import grammar_decoder
        shared = grammar_decoder(enc)[1]
        cls = type(encoder)
        kw = {k: v for k, v in cfg.items()}
        encoder = cls(decoder=shared, **kw)
    texts = []
    for call in range(3):
        try:
            if style == "instance":
                t = encoder.encode(m)
            elif style == "shared-decoder":
                if call:
                    # between the calls encoders of the other dialects are built around
                    # the same decoder object (and used once)
                    for other in ENCODERS:
                        if other != enc:
                            try:
                                type(make_encoder(other))(decoder=shared).encode(
                                    gv.build_module([["a", 1]]))
                            except Exception:
                                pass     # (an ODL encoder around a PVL decoder, say)
                # "the same call with the same arguments": a new encoder around the
                # same decoder object every other time, the kept one otherwise
                if call == 2 or case["spec"] and len(case["spec"]) % 2:
                    t = pvl.dumps(m, encoder=type(encoder)(decoder=shared, **cfg))
                else:
                    t = encoder.encode(m)
            elif style == "other-dialects-between":
                if call:
                    # between the calls, encoders of the other dialects (and a plain
                    # pvl.dumps) write modules with long statements of their own
                    long_mod = gv.build_module([["LONG_STATEMENT", {"seq": [
                        "several words in a string", "another string of words",
                        "and a third one so that the line has to be wrapped", 12345]}]])
                    for other in ENCODERS:
                        if other != enc:
                            try:
                                make_encoder(other).encode(long_mod)
                            except (ValueError, TypeError):
                                pass
                    try:
                        pvl.dumps(long_mod)
                    except (ValueError, TypeError):
                        pass
                t = encoder.encode(m)
            elif style == "dumps-options-between":
                if call:
                    # the same encoder object handed to pvl.dumps()/pvl.dump() together
                    # with encoder options (which those functions document as meant for
                    # the encoder they build themselves), between the calls
                    import io
                    for kw in (dict(indent=7, width=33), dict(aggregation_end=False),
                               dict(end_delimiter=False, newline="\r\n"),
                               dict(tab_replace=1, time_trailing_z=False,
                                    symbol_single_quote=False, convert_group_to_object=False)):
                        for other in [m] + unrelated[:1]:
                            try:
                                pvl.dumps(other, encoder=encoder, **kw)
                                pvl.dump(other, io.StringIO(), encoder=encoder, **kw)
                            except (ValueError, TypeError):
                                pass
                t = encoder.encode(m) if call != 1 else pvl.dumps(m, encoder=encoder)
            elif style == "new-dumps-between":
                if call:
                    # the same encoder object is handed to pvl.new.dumps (and
                    # pvl.new.dump) between the calls: for a module of the new container
                    # family, for a plain one and for this one
                    import io
                    from pvl import new as pvl_new
                    import pvl.collections as pc
                    newfam = gv.build_module([["g", {"grp": [["x", 1]]}], ["k", 2]],
                                             pc.PVLModuleNew, pc.PVLGroupNew,
                                             pc.PVLObjectNew)
                    for other in [newfam] + unrelated + [m]:
                        try:
                            pvl_new.dumps(other, encoder=encoder)
                            pvl_new.dump(other, io.StringIO(), encoder=encoder)
                        except (ValueError, TypeError):
                            pass
                t = encoder.encode(m) if call < 2 else pvl.dumps(m, encoder=encoder)
            elif style == "instance-interleaved":
                if call:
                    # between the calls the same encoder writes other modules that
                    # share block objects with *m*: only its blocks, and m plus an
                    # OBJECT of its own
                    for other in interleaved_modules(m) + unrelated:
                        try:
                            encoder.encode(other)
                        except (ValueError, TypeError):
                            pass
                t = encoder.encode(m)
            elif style == "other-encoder-registers":
                if call == 1:
                    make_encoder(enc).add_quantity_cls(Metres, "value", "units")
                elif call == 2:
                    make_encoder("PVL" if enc != "PVL" else "ODL").add_quantity_cls(
                        Metres, "value", "units")
                t = encoder.encode(m) if call < 2 else \
                    make_encoder(enc, **cfg).encode(m)
            elif style == "dumps-fresh":
                t = pvl.dumps(m, encoder=make_encoder(enc, **cfg))
            else:
                t = pvl.dumps(m)
            out = ("text", t)
        except (ValueError, TypeError) as e:
            out = ("refused", type(e).__name__)
        except Exception as e:
            return ("fail", f"C13/{enc}/raises/{type(e).__name__}", repr(e))
        texts.append(out)
        after, ids2 = snap(m)
        pds = enc == "PDS3" or style == "dumps-default"
        if after != before:
            if pds and only_g2o(before, after):
                pass
            else:
                return ("fail", f"C13/{'PDS3' if pds else enc}/argument-changed",
                        f"call {call + 1} ({style}): module changed from "
                        f"{before!r} to {after!r}")
        if out != texts[0]:
            return ("fail", f"C13/{'PDS3' if pds else enc}/not-repeatable",
                    f"call {call + 1} ({style}) returned {out!r:.300}, call 1 "
                    f"returned {texts[0]!r:.300}")
    return (texts[0][0], texts[0][1])


def interleaved_modules(m):
    from pvl.collections import PVLModule, PVLObject
    blocks = [(k, v) for k, v in m.items() if nm.container_tag(v) in ("grp", "obj")]
    groups = [(k, v) for k, v in blocks if nm.container_tag(v) == "grp"]
    out = []
    if groups:
        out.append(PVLModule(groups))
        # the same groups in modules that the encoder gives up on part-way
        out.append(PVLModule(groups + [("BAD", float("inf"))]))
        out.append(PVLModule([("BAD", float("inf"))] + groups))
    out.append(PVLModule(list(m.items()) + [("EXTRA_OBJECT", PVLObject([("Z", 1)]))]))
    if blocks:
        out.append(PVLModule(blocks[:1]))
    return out


def has_block(spec):
    return any(isinstance(v, dict) and ("grp" in v or "obj" in v) for _, v in spec)


def random_cases(acc, enc, n, seed):
    @hseed(seed)
    @settings(max_examples=n, database=None, deadline=None,
              phases=[Phase.generate],
              suppress_health_check=list(HealthCheck))
    @given(cases(enc))
    def body(case):
        if acc.expired():
            acc.notes["budget_exhausted"] = 1
            return
        r = run_case(case)
        acc.event(f"{enc}:{r[0]}")
        acc.event("style:" + case["style"])
        nt = has_block(case["spec"])
        acc.case(key=repr(case), nontrivial=nt,
                 sample={"enc": enc, "style": case["style"],
                         "spec": repr(case["spec"])[:200]} if nt else None)
        if r[0] == "fail":
            acc.fail(r[1], case, r[2])

    body()


def Zygote():
    """A process that has imported pvl and this harness and done nothing else; every
    case handed to it runs in a fork of that image, so that the first of a case's
    calls is also the first thing the pvl library does in its process ("the same
    text every time ... within a process" includes the first time)."""
    from vlib.zygote import Zygote as Z
    return Z("props.c13:run_case")


# modules whose statements have to be wrapped inside or next to quoted strings
WRAPPED = [
    [["K", {"seq": ["alpha beta gamma delta epsilon", "zeta eta theta iota kappa lambda",
                    "mu nu xi omicron pi rho sigma tau", 5]}]],
    [["K", {"set": ["alpha beta gamma delta epsilon", "zeta eta theta iota kappa lambda",
                    "mu nu xi omicron pi rho sigma tau"]}]],
    [["NOTE", "a string of words that is longer than the width of one line of a "
              "label and so has to be continued on the next"]],
    [["g", {"grp": [["K", {"seq": ["one two three four five six seven", "eight nine",
                                   "ten eleven twelve thirteen fourteen fifteen"]}]]}]],
    [["K", {"seq": [{"q": [1.5, "m"]}] * 14}], ["S", {"seq": ["ab cd"] * 20}]],
    [["K", {"seq": [{"seq": ["alpha beta gamma delta", "epsilon zeta eta theta"]},
                    {"seq": ["iota kappa lambda mu nu xi", "omicron pi rho sigma"]}]}]],
]


def fresh_cases(acc, enc, n, seed):
    """The cases of random_cases(), each in a process that has done nothing before."""
    z = Zygote()
    try:
        def one(case):
            r = z.run(case)
            acc.event(f"fresh:{enc}:{r[0]}")
            acc.event("fresh-style:" + case["style"])
            nt = has_block(case["spec"]) or case["spec"] in WRAPPED
            acc.case(key="fresh" + repr(case), nontrivial=nt,
                     sample={"enc": enc, "style": case["style"], "fresh": True,
                             "spec": repr(case["spec"])[:200]} if nt else None)
            if r[0] == "fail":
                acc.fail(r[1].replace("C13/", "C13/fresh-process/", 1),
                         dict(case, fresh=True), r[2])

        for spec in WRAPPED:
            for style in ("other-dialects-between", "instance-interleaved",
                          "shared-decoder", "dumps-default", "new-dumps-between",
                          "dumps-options-between"):
                for cfg in ({}, {"width": 40}):
                    one({"enc": enc, "cfg": cfg, "spec": spec, "style": style,
                         "others": [PROVOKERS[-3]], "iterval": None})

        @hseed(seed)
        @settings(max_examples=n, database=None, deadline=None,
                  phases=[Phase.generate],
                  suppress_health_check=list(HealthCheck))
        @given(cases(enc))
        def body(case):
            if acc.expired():
                acc.notes["budget_exhausted"] = 1
                return
            one(case)

        body()
    finally:
        z.close()


def shards(tier, seed):
    n = 350 if tier == "quick" else 7500
    k = 120 if tier == "quick" else 2500
    return [("random_cases", dict(enc=ENCODERS[j % 4], n=n, seed=seed * 1000 + j))
            for j in range(16)] + \
           [("fresh_cases", dict(enc=ENCODERS[j % 4], n=k, seed=seed * 1000 + 500 + j))
            for j in range(8)]


def replay(case):
    if case.get("fresh"):
        z = Zygote()
        try:
            r = z.run({k: v for k, v in case.items() if k != "fresh"})
        finally:
            z.close()
        if r[0] == "fail":
            return (r[1].replace("C13/", "C13/fresh-process/", 1), r[2])
        return None
    r = run_case(case)
    if r[0] == "fail":
        return (r[1], r[2])
    return None


def shrink(case, still_fails):
    return c01.shrink(case, still_fails)
