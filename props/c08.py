"""C08 - missing values are tolerated by the default loader and located exactly.

Domain : structured documents (vlib.gen_text.stmt_nodes, >= 2 statements, nested
         blocks) x a non-empty subset of assignments whose value (and units) is
         removed x seeded layouts (blank lines, comments containing '=', CRLF,
         several statements per line) x {default, ISISv}.
Oracle : the generator's tree with '' at the gaps; every gap value is an
         EmptyValueAtLine whose lineno == 1 + text.count('\\n', 0, index of that
         '='), computed on the text passed in; module.errors == sorted(linenos);
         the strict PVL, ODL and PDS3 parsers raise on the same text.
"""
from hypothesis import given, seed as hseed, settings, HealthCheck, Phase
from hypothesis import strategies as st

from vlib import gen_text as gt
from vlib import normalise as nm
from vlib.budget import BudgetExceeded
from vlib.dialects import budget_parser
from vlib.shrink import shrink_seq

ID = "C08"
LEVEL = "exploration"
BUDGET = {"quick": 200, "thorough": 1200}
RULE = (
    "case = (variant in {default, ISISv}, text rendered from a generated document "
    "with a non-empty set of value gaps, expected tree, expected line number per "
    "gap). What follows a gap arises from the document structure: next assignment, "
    "block begin, block end, ';', END, end of text; adjacent gaps and first/last-in-"
    "block gaps are forced with 30% probability. Non-trivial = >= 1 gap (always); "
    "distinct by (variant, text)."
)
ASSUMPTIONS = [
    "line numbers count LF characters in the text handed to the loader",
    "layouts never put a line end directly after a token ending in '-' "
    "(documented dash continuation of OmniParser)",
]


@st.composite
def cases(draw, d):
    nodes = draw(st.lists(gt.stmt_nodes(d), min_size=2, max_size=6))
    n = gt.count_assignments(nodes)
    if n == 0:
        nodes = nodes + [("assign", "zz", [gt.T("1", "word", ("int", 1))],
                          ("int", 1), False)]
        n = 1
    if draw(st.integers(0, 3)) == 0:
        # parameters named like a value keyword: 'TRUE = 1' is an assignment to the
        # default loader, and so it is when the statement before it lacks its value
        kw = draw(st.lists(st.sampled_from(["TRUE", "true", "Null", "NULL", "false",
                                            "False", "nUlL"]), min_size=8, max_size=8))
        pick = draw(st.lists(st.booleans(), min_size=40, max_size=40))
        counter = [0]

        def rename(nds):
            out = []
            for nd in nds:
                if nd[0] == "assign":
                    i = counter[0]
                    counter[0] += 1
                    if pick[i % 40]:
                        nd = ("assign", kw[i % 8]) + tuple(nd[2:])
                    out.append(nd)
                else:
                    out.append(tuple(nd[:5]) + (rename(nd[5]),) + tuple(nd[6:]))
            return out

        nodes = rename(nodes)
    style = draw(st.integers(0, 9))
    if style < 2 and n >= 2:
        i = draw(st.integers(0, n - 2))
        gaps = {i, i + 1}                      # adjacent gaps
    elif style == 2:
        gaps = {n - 1}                         # last statement
    elif style == 3:
        gaps = set(range(n))                   # every value missing
    else:
        gaps = set(draw(st.lists(st.integers(0, n - 1), min_size=1, max_size=4)))
    # dash-continued quoted strings ahead of the gaps: the default loader removes
    # the continuations before parsing and must still report original line numbers
    ndash = draw(st.sampled_from([0, 0, 0, 1, 2, 3]))
    pre = []
    for j in range(ndash):
        body = draw(st.sampled_from(["ab-\n   cd", "x-\n\n y", "long text-\n  more-\n  end",
                                     "crlf-\r\n  z"]))
        pre.append(("assign", f"dash{j}", [gt.T('"' + body + '"', "quoted",
                                                 ("str", nm.Norm(folding=True, omni=True).string(body)))],
                    ("str", nm.Norm(folding=True, omni=True).string(body)), False))
    if pre:
        nodes = pre + nodes
        gaps = {g + len(pre) for g in gaps}
    toks, items, gap_eqs = gt.flatten_nodes(nodes, frozenset(gaps))
    if draw(st.booleans()):
        toks = toks + [gt.T(draw(gt.mixed_case("end")), "end")]
    mode = draw(st.sampled_from(["full", "full", "light"]))
    text, pos = gt.layout_with_positions(
        toks, d, draw(st.integers(0, 2 ** 32)), mode,
        final=draw(st.sampled_from(["", "\n", " ", "\r\n"])))
    linenos = [1 + text.count("\n", 0, pos[g]) for g in gap_eqs]
    follows = []
    for g in gap_eqs:
        nxt = toks[g + 1] if g + 1 < len(toks) else None
        follows.append(follow_class(nxt, toks, g))
    return dict(variant=d, text=text, expected=("mod", tuple(items)),
                linenos=linenos, follows=follows)


def follow_class(nxt, toks, g):
    if nxt is None:
        return "end-of-text"
    t = nxt[0].casefold()
    if nxt[1] == "semi":
        return "delimiter"
    if t == "end":
        return "END"
    if t in ("end_group", "end_object"):
        return "block-end"
    if t in ("group", "object", "begin_group", "begin_object"):
        return "block-begin"
    if g + 2 < len(toks) and toks[g + 2][1] == "eq":
        if g + 3 < len(toks) and toks[g + 3][1] == "eq":
            return "adjacent-gap"
        return "next-assignment"
    return "other"


def collect_empties(m, out):
    from pvl.parser import EmptyValueAtLine
    for k, v in m.items():
        if isinstance(v, EmptyValueAtLine):
            out.append(v.lineno)
        elif hasattr(v, "items") and hasattr(v, "getall"):
            collect_empties(v, out)
    return out


def run_case(case):
    d = case["variant"]
    text = case["text"]
    p = budget_parser(d)
    try:
        m = p.parse(text)
    except BudgetExceeded:
        return (f"C08/{d}/spins", f"text={text!r}")
    except Exception as e:
        return (f"C08/load-raises/{type(e).__name__}",
                f"{d}: {type(e).__name__}: {str(e)[:200]}; text={text!r}")
    dd = nm.diff(case["expected"], nm.canon(m))
    if dd is not None:
        return ("C08/tree-differs",
                f"{d}: at {dd[0]}: expected {dd[1]!r} got {dd[2]!r}; text={text!r}")
    got = collect_empties(m, [])
    if len(got) != len(case["linenos"]):
        return ("C08/placeholder-count",
                f"{d}: {len(got)} EmptyValueAtLine values, expected "
                f"{len(case['linenos'])}; text={text!r}")
    if got != list(case["linenos"]):
        return ("C08/lineno",
                f"{d}: placeholder line numbers {got} expected {case['linenos']}; "
                f"text={text!r}")
    if list(m.errors) != sorted(case["linenos"]):
        return ("C08/errors-attribute",
                f"{d}: module.errors {list(m.errors)} expected "
                f"{sorted(case['linenos'])}; text={text!r}")
    for s in ("PVL", "ODL", "PDS3"):
        ps = budget_parser(s)
        try:
            ps.parse(text)
            return (f"C08/strict-accepts/{s}",
                    f"strict {s} parser returned a module for text with a missing "
                    f"value; text={text!r}")
        except BudgetExceeded:
            return (f"C08/{s}/spins", f"text={text!r}")
        except Exception as e:
            if type(e).__name__ not in ("LexerError", "ParseError"):
                return (f"C08/strict-foreign/{type(e).__name__}",
                        f"{s}: {e!r}; text={text!r}")
    return None


def random_cases(acc, d, n, seed):
    @hseed(seed)
    @settings(max_examples=n, database=None, deadline=None,
              phases=[Phase.generate],
              suppress_health_check=list(HealthCheck))
    @given(cases(d))
    def body(case):
        if acc.expired():
            acc.notes["budget_exhausted"] = 1
            return
        r = run_case(case)
        acc.case(key=d + "\0" + case["text"], nontrivial=True,
                 sample={"variant": d, "text": case["text"][:250],
                         "linenos": case["linenos"]})
        acc.event(f"{d}:{'ok' if r is None else 'fail'}")
        for f in case["follows"]:
            acc.event("gap-followed-by:" + f)
        acc.event("gaps", len(case["linenos"]))
        if r is not None:
            acc.fail(r[0], dict(variant=d, text=case["text"],
                                expected=jsonable(case["expected"]),
                                linenos=case["linenos"]), r[1])

    body()


def jsonable(x):
    if isinstance(x, frozenset):
        return sorted((jsonable(i) for i in x), key=repr)
    if isinstance(x, tuple):
        return [jsonable(i) for i in x]
    return x


def tuplify(x):
    if isinstance(x, list):
        if len(x) == 2 and x[0] == "set" and isinstance(x[1], list):
            return ("set", frozenset(tuplify(i) for i in x[1]))
        return tuple(tuplify(i) for i in x)
    return x


def shards(tier, seed):
    n = 300 if tier == "quick" else 8000
    return [("random_cases", dict(d=("default", "ISISv")[j % 2], n=n,
                                  seed=seed * 1000 + j)) for j in range(16)]


def replay(case):
    c = dict(case)
    c["expected"] = tuplify(case["expected"])
    return run_case(c)
