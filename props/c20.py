"""C20 - command-line tools are faithful front-ends of the library.

Domain : label files written to .work/ from generated documents (default dialect,
         random layouts), encoder output for generated modules, the tests/data corpus
         and token-damaged variants (C05 faults); pvl_translate with each of the five
         output formats; pvl_validate with 1 and with 2-5 files per invocation.
Oracle : pvl_translate.main(["-of", F, in, out]) in-process: the bytes of *out* equal
         pvl.dumps(pvl.load(in), encoder=<fresh encoder of F's class>) and main fails
         (raises, or exits non-zero) iff that library call raises; for JSON the output
         parses (object_pairs_hook=list) to the nested pairs of the loaded label and
         main raises iff json.dumps of the loaded module raises.
         pvl_validate.main(files) with stdout captured: the report (single-file and
         table layout) is parsed into {file -> dialect -> (loads, encodes)} and
         compared with fresh-instance library calls wired as the documentation
         describes each dialect; main returns and reports every file.
"""
import contextlib
import gc
import glob
import io
import json
import os
import shutil

import pvl
import pvl.pvl_translate as pt
import pvl.pvl_validate as pv
from hypothesis import given, seed as hseed, settings, HealthCheck, Phase
from hypothesis import strategies as st
from pvl.collections import Quantity
from pvl.encoder import PVLEncoder, ODLEncoder, PDSLabelEncoder, ISISEncoder

from props import c01, c05, c16
from vlib import gen_text as gt
from vlib import gen_values as gv
from vlib.budget import BudgetExceeded, counting_lexer
from vlib.dialects import make_encoder, ENCODERS
from vlib.runner import VERIF

ID = "C20"
LEVEL = "exploration"
BUDGET = {"quick": 200, "thorough": 1200}
REPO = os.environ.get("VERIF_REPO", "/repo")
RULE = (
    "case = ('translate', text, format) or ('validate', [texts]). Non-trivial = "
    "for validate: a file for which at least two dialect rows differ, or a damaged "
    "file; for translate: a text with a block, a quantity or a non-ASCII character; "
    "distinct by the case."
)
ASSUMPTIONS = [
    "files are read and written as UTF-8 (PYTHONUTF8=1)",
    "pvl_validate's parsers get the counting lexer (attribute assignment in the "
    "harness process only) so that a spinning load becomes a verdict",
]

FORMAT_ENCODER = {"PDS3": PDSLabelEncoder, "ODL": ODLEncoder, "ISIS": ISISEncoder,
                  "PVL": PVLEncoder}


def workdir():
    d = os.path.join(VERIF, ".work", f"c20-{os.getpid()}")
    os.makedirs(d, exist_ok=True)
    return d


def to_pairs(v):
    """The shape json.loads(..., object_pairs_hook=list) gives for a label."""
    if hasattr(v, "items") and hasattr(v, "getall"):
        return [(k, to_pairs(x)) for k, x in v.items()]
    if isinstance(v, Quantity):
        return [to_pairs(v.value), to_pairs(v.units)]
    if isinstance(v, list):
        return [to_pairs(i) for i in v]
    return v


def deeper(n, f):
    """f() called n frames further down the stack."""
    return f() if n <= 0 else deeper(n - 1, f)


STACK_MARGIN = 60
UNSETTLED = ("unsettled",)


def deep_texts():
    """Labels nested so deeply that loading still works and writing runs out of stack
    (depths well inside that band, see stack_stable())."""
    out = []
    for depth, kw in ((700, ("OBJECT", "END_OBJECT")), (700, ("GROUP", "END_GROUP")),
                      (40, ("OBJECT", "END_OBJECT"))):
        out.append("".join(f"{kw[0]} = b{i}\n" for i in range(depth)) + "x = 1\n" +
                   "".join(f"{kw[1]}\n" for i in range(depth)) + "END\n")
    for depth, (o, c) in ((270, "()"), (270, "{}"), (30, "()"), (2, "()"), (3, "{}")):
        out.append("a = 1\nv = " + o * depth + "1" + c * depth + "\nEND\n")
    return out


def file_bytes(text):
    """The bytes of a label file: UTF-8, with U+DC80..U+DCFF standing for the raw
    bytes 0x80..0xFF (so that a case can carry undecodable bytes and still be JSON)."""
    try:
        return text.encode("utf-8", "surrogateescape")
    except UnicodeEncodeError:
        return text.encode("utf-8", "surrogatepass")


def check_translate(text, fmt):
    """None or (signature, detail)."""
    d = workdir()
    inp, outp = os.path.join(d, "in.lbl"), os.path.join(d, "out.txt")
    with open(inp, "wb") as f:
        f.write(file_bytes(text))
    if os.path.exists(outp):
        os.remove(outp)
    importlib_reload()
    try:
        pt.main(["-of", fmt, inp, outp])
        gc.collect()          # main() leaves closing its output file to the GC
        cli = ("ok", open(outp, "rb").read())
    except SystemExit as e:
        cli = ("ok", open(outp, "rb").read() if os.path.exists(outp) else b"") \
            if e.code in (0, None) else ("raised", f"SystemExit({e.code})")
    except Exception as e:
        cli = ("raised", type(e).__name__)
    # the library call it fronts
    def library():
        try:
            m = pvl.load(inp)
            if fmt == "JSON":
                return ("ok", json.dumps(m).encode("utf-8")), m
            return ("ok", pvl.dumps(m, encoder=FORMAT_ENCODER[fmt]()).encode("utf-8")), m
        except Exception as e:
            return ("raised", type(e).__name__), None

    lib, m = library()
    if "RecursionError" in (lib[1], cli[1]) and \
            deeper(STACK_MARGIN, library)[0][0] != lib[0]:
        return UNSETTLED      # the outcome depends on how deep the caller's stack is
    if cli[0] != lib[0]:
        return (f"C20/translate/{fmt}/outcome-differs",
                f"pvl_translate -of {fmt}: {cli[:2]!r:.120}; library call: "
                f"{lib[:2]!r:.120}; text={text[:300]!r}")
    if cli[0] == "ok":
        if cli[1] != lib[1]:
            return (f"C20/translate/{fmt}/output-differs",
                    f"pvl_translate wrote {cli[1][:200]!r}, the library gives "
                    f"{lib[1][:200]!r}; text={text[:300]!r}")
        if fmt == "JSON":
            try:
                got = json.loads(cli[1].decode("utf-8"), object_pairs_hook=list)
            except Exception as e:
                return ("C20/translate/JSON/unparseable", f"{e!r}: {cli[1][:200]!r}")
            try:
                want = json.loads(json.dumps(to_pairs(m)))
                differs = normalise_pairs(got) != normalise_pairs(want)
            except RecursionError:
                differs = False   # too deep for the harness's own walk; bytes agreed
            if differs:
                return ("C20/translate/JSON/content-differs",
                        f"JSON {got!r:.300} vs label {want!r:.300}")
    return None


def normalise_pairs(x):
    if isinstance(x, (list, tuple)):
        return [normalise_pairs(i) for i in x]
    return x


def importlib_reload():
    import importlib
    importlib.reload(pt)
    importlib.reload(pv)


def parse_report(out, files):
    """-> {file: {dialect: (loads, encodes)}} or raises ValueError."""
    lines = [ln for ln in out.splitlines()
             if not ln.startswith("pvl library version:")]      # printed with -v
    res = {}
    if len(files) == 1:
        rows = {}
        for ln in lines:
            cells = [c.strip() for c in ln.split("|")]
            if len(cells) != 3:
                raise ValueError(f"unexpected report line {ln!r}")
            loads = {"Loads": True, "does NOT load": False}[cells[1]]
            enc = {"Encodes": True, "does NOT encode": False, "": None}[cells[2]]
            rows[cells[0]] = (loads, enc)
        res[files[0]] = rows
        return res
    header = None
    for ln in lines:
        if set(ln) <= set("-+"):
            continue
        cells = [c.strip() for c in ln.split("|")]
        if header is None:
            if cells[0] != "File":
                raise ValueError(f"unexpected header {ln!r}")
            header = cells[1:]
            continue
        rows = {}
        for name, cell in zip(header, cells[1:]):
            toks = " ".join(cell.split())
            if toks.startswith("No L"):
                loads, rest = False, toks[4:].strip()
            elif toks.startswith("L"):
                loads, rest = True, toks[1:].strip()
            else:
                raise ValueError(f"unexpected cell {cell!r}")
            enc = {"E": True, "No E": False, "": None}[rest]
            rows[name] = (loads, enc)
        res[cells[0]] = rows
    return res


def expected_rows(text):
    """{dialect: (loads, encodes)}; ("spins", None) when the load does not terminate,
    ("unsettled", None) when the verdict depends on the depth of the caller's stack
    (a RecursionError that a slightly shallower or deeper call would not meet)."""
    rows = {}
    for name, make in c16.VALIDATE_FRESH.items():
        def one():
            parser, encoder = make()
            parser.lexer = counting_lexer()
            rec = False
            try:
                m = parser.parse(text)
            except BudgetExceeded:
                return ("spins", None), False
            except RecursionError:
                return (False, None), True
            except Exception:
                return (False, None), False
            try:
                encoder.encode(m)
                return (True, True), False
            except RecursionError:
                return (True, False), True
            except Exception:
                return (True, False), False

        row, rec = one()
        if rec:
            # only a verdict that survives STACK_MARGIN more (and, for the CLI, a few)
            # frames is compared
            other, _ = deeper(STACK_MARGIN, one)
            if other != row or row == (False, None):
                row = ("unsettled", None)
        rows[name] = row
    return rows


def check_validate(texts):
    d = workdir()
    files = []
    for i, t in enumerate(texts):
        p = os.path.join(d, f"f{i}.lbl")
        with open(p, "wb") as f:
            f.write(file_bytes(t))
        files.append(p)
    importlib_reload()
    for k, v in pv.dialects.items():
        v["parser"].lexer = counting_lexer()
    buf = io.StringIO()
    try:
        # every third invocation asks for the verbose report (-v / -vv): errors then go
        # to the log, the table on standard output has to stay what it is
        import logging
        import zlib
        k = zlib.crc32(repr(texts).encode("utf-8", "surrogatepass")) % 6
        flags = {0: ["-v"], 1: ["-vv"]}.get(k, [])
        logging.getLogger().handlers.clear()        # basicConfig() acts once per process
        with contextlib.redirect_stdout(buf), \
                contextlib.redirect_stderr(io.StringIO()):
            pv.main(flags + files)
        logging.getLogger().handlers.clear()
    except BudgetExceeded:
        return ("C20/validate/spins", f"pvl_validate did not terminate: {texts!r:.300}")
    except SystemExit as e:
        return ("C20/validate/SystemExit", f"exit {e.code}")
    except Exception as e:
        return (f"C20/validate/raises/{type(e).__name__}",
                f"{e!r}; texts={texts!r:.300}")
    try:
        rep = parse_report(buf.getvalue(), files)
    except (ValueError, KeyError) as e:
        return ("C20/validate/report-layout", f"{e!r}; report={buf.getvalue()!r:.400}")
    for p, t in zip(files, texts):
        if p not in rep:
            return ("C20/validate/file-missing-from-report",
                    f"{p} not reported; report={buf.getvalue()!r:.400}")
        want = expected_rows(pvl.get_text_from(p))
        for name, w in want.items():
            g = rep[p].get(name)
            if w[0] in ("spins", "unsettled"):
                continue
            if g != w:
                which = "loads" if (g is None or g[0] != w[0]) else "encodes"
                return (f"C20/validate/{name}/{which}-cell",
                        f"{name}: report says {g}, library gives {w}; "
                        f"text={t[:300]!r}")
    return None


def corpus():
    out = []
    for f in sorted(glob.glob(os.path.join(REPO, "tests", "data", "**", "*"),
                              recursive=True)):
        if os.path.isfile(f) and os.path.getsize(f) < 30000:
            try:
                out.append(open(f, encoding="utf-8").read())
            except (UnicodeDecodeError, OSError):
                pass
    return out


_CORPUS = None


@st.composite
def texts(draw):
    """A label text, sometimes dressed as files in the wild are: a UTF-8 byte order
    mark in front, binary (undecodable) data or NULs behind."""
    t = draw(plain_texts())
    k = draw(st.integers(0, 19))
    if k == 0:
        t = "\ufeff" + t
    elif k == 1:
        t = t + draw(st.sampled_from(["\udcff\udcfe\x00binary", "\n\x00\x00\x00",
                                      "\udc80", "\r\n\udcc3"]))
    elif k == 2:
        t = "\ufeff" + t + "\n\udcff\udcfe"
    return t


@st.composite
def plain_texts(draw):
    global _CORPUS
    if _CORPUS is None:
        _CORPUS = corpus()
    src = draw(st.sampled_from(["gen", "gen", "enc", "corpus", "damaged", "damaged",
                                "dialects-disagree"]))
    if src == "dialects-disagree":
        return draw(st.sampled_from(DISCRIMINATING))
    if src == "gen":
        d = draw(st.sampled_from(["default", "PVL", "ODL", "PDS3", "ISIS"]))
        doc = draw(gt.documents(d, min_statements=1))
        return gt.seeded_layout(doc, d, draw(st.integers(0, 2 ** 32)),
                                draw(st.sampled_from(["light", "full"])))
    if src == "enc":
        enc = draw(st.sampled_from(ENCODERS))
        case = draw(c01.cases(enc))
        try:
            return make_encoder(enc, **case["cfg"]).encode(
                gv.build_module(case["spec"]))
        except (ValueError, TypeError):
            return "a = 1\nEND\n"
    if src == "corpus" and _CORPUS:
        return draw(st.sampled_from(_CORPUS))
    d = draw(st.sampled_from(["default", "PVL", "ODL"]))
    doc = draw(gt.documents(d, min_statements=1))
    return c05.render(c05.apply_faults(doc["tokens"], draw(c05.fault_strategy())))


def random_cases(acc, n, seed):
    @hseed(seed)
    @settings(max_examples=n, database=None, deadline=None,
              phases=[Phase.generate], suppress_health_check=list(HealthCheck))
    @given(st.one_of(
        st.tuples(st.just("translate"), texts(),
                  st.sampled_from(["PDS3", "ODL", "ISIS", "PVL", "JSON"])),
        st.tuples(st.just("validate"), st.lists(texts(), min_size=1, max_size=1)),
        st.tuples(st.just("validate"), st.lists(texts(), min_size=2, max_size=5))))
    def body(case):
        if acc.expired():
            acc.notes["budget_exhausted"] = 1
            return
        if case[0] == "translate":
            r = check_translate(case[1], case[2])
            nt = any(k in case[1].upper() for k in ("GROUP", "OBJECT", "<")) or \
                not case[1].isascii()
            acc.event("translate:" + case[2])
            cj = dict(kind="translate", text=case[1], fmt=case[2])
        else:
            r = check_validate(case[1])
            nt = True
            acc.event(f"validate:{len(case[1])}-files")
            cj = dict(kind="validate", texts=case[1])
        if r == UNSETTLED:
            acc.event("stack-depth-sensitive (not compared)")
            r = None
        acc.case(key=repr(case), nontrivial=nt,
                 sample={"kind": case[0], "arg": repr(case[1:])[:200]} if nt else None)
        acc.event("ok" if r is None else "fail")
        if r is not None:
            acc.fail(r[0], cj, r[1])

    try:
        body()
    finally:
        shutil.rmtree(workdir(), ignore_errors=True)


def deep_cases(acc, idx):
    """One deeply nested label (expensive, so each gets a shard of its own): validated
    alone and next to an ordinary file, translated to every format."""
    text = deep_texts()[idx]
    todo = [("validate", [text]), ("validate", ["a = 1\nEND\n", text])]
    todo += [("translate", text, f) for f in ("PDS3", "ODL", "ISIS", "PVL", "JSON")]
    try:
        for case in todo:
            if acc.expired():
                acc.notes["budget_exhausted"] = 1
                return
            if case[0] == "translate":
                r = check_translate(case[1], case[2])
                cj = dict(kind="translate", text=case[1], fmt=case[2])
            else:
                r = check_validate(case[1])
                cj = dict(kind="validate", texts=case[1])
            if r == UNSETTLED:
                acc.event("stack-depth-sensitive (not compared)")
                r = None
            acc.event(f"deep-nesting:{case[0]}")
            acc.case(key=repr((idx,) + case[:1] + case[2:]), nontrivial=True,
                     sample={"kind": case[0], "deep_text": idx,
                             "starts": text[:40]} if case[0] == "validate" else None)
            if r is not None:
                acc.fail(r[0], cj, r[1])
    finally:
        shutil.rmtree(workdir(), ignore_errors=True)


DRESSED = ["\ufeffa = b\nEND\n", "\ufeff/* c */\nGROUP = g\n x = 1\nEND_GROUP\nEND\n",
           "\ufeffa = 1\nEND\n\udcff\udcfe", "a = 1\nb = \"caf\u00e9\"\nEND\n\udcff",
           "\ufeff", "\ufeff\n", "a = 1\nEND\n\x00\x00", "\udcffa = 1\nEND\n",
           "a = \ufeff\nEND\n", "\r\na = 1\r\nEND\r\n", "a = 1 # c\rb = 2\rEND\r"]


# texts on which the dialects disagree (some rows of the report say 'loads', others
# do not - in every combination that was found, the Omni row alone failing included)
DISCRIMINATING = [
    "Bands = 7# seven filters\nEnd\n", "k = 10#9# x\nEND\n", "k = -7#\nEND\n",
    "a = 1\nEND+x\n", "a = \"caf\u00e9\"\nEND\n", "a = 1;\nEND;\n", "name_ = 1\nEND\n",
    "a = 1 # comment\nEND\n", "t = 12:00:00+01:00\nEND\n", "a = 1e3\nb = 12:00:60\nEND\n",
    "Group = g\n  a = 1\nEnd_Group\nEnd\n", "BEGIN_GROUP = g;\n a = 1;\nEND_GROUP = g;\nEND;\n",
    "a = {1, (2, 3)}\nEND\n", "a = 16#-FF#\nEND\n", "a = -16#FF#\nEND\n", "a = 2#2#\nEND\n",
    "a = 5 <m\ts>\nEND\n", "a = b-\nc = 1\nEND\n", "x = \"a\tb\"\nEND\n", "a = '\t'\nEND\n",
    "a = 1\nb =\nEND\n", "^PTR = (\"F.IMG\", 5 <BYTES>)\nEND\n", "a = 2001-13-01\nEND\n",
    "long_parameter_name_over_thirty_chars = 1\nEND\n", "a = \x0b1\nEND\n", "a = N/A\nEND\n",
]


def dressed_cases(acc):
    """Fixed files with a byte order mark, undecodable bytes, NULs, CR line ends: each
    translated to every format and validated alone and in company."""
    todo = []
    for t in DRESSED:
        todo += [("translate", t, f) for f in ("PDS3", "ODL", "ISIS", "PVL", "JSON")]
        todo += [("validate", [t]), ("validate", ["a = 1\nEND\n", t, "b = \n"])]
    for i, t in enumerate(DISCRIMINATING):
        todo += [("validate", [t]),
                 ("validate", [DISCRIMINATING[i - 1], t, "a = 1\nEND\n"])]
        todo += [("translate", t, f) for f in ("PDS3", "ISIS", "PVL")]
    try:
        for case in todo:
            if case[0] == "translate":
                r = check_translate(case[1], case[2])
                cj = dict(kind="translate", text=case[1], fmt=case[2])
            else:
                r = check_validate(case[1])
                cj = dict(kind="validate", texts=case[1])
            if r == UNSETTLED:
                r = None
            acc.event(f"dressed:{case[0]}")
            acc.case(key=repr(case), nontrivial=True)
            if r is not None:
                acc.fail(r[0], cj, r[1])
    finally:
        shutil.rmtree(workdir(), ignore_errors=True)


def shards(tier, seed):
    n = 160 if tier == "quick" else 1500
    out = [("deep_cases", dict(idx=i)) for i in range(len(deep_texts()))]
    out.append(("dressed_cases", {}))
    out += [("random_cases", dict(n=n, seed=seed * 1000 + j)) for j in range(16)]
    return out


def replay(case):
    try:
        if case["kind"] == "translate":
            r = check_translate(case["text"], case["fmt"])
            return None if r == UNSETTLED else r
        return check_validate(case["texts"])
    finally:
        shutil.rmtree(workdir(), ignore_errors=True)
