"""C09 - file, stream and string entry points agree; nothing after END matters.

Domain : ASCII labels (PDS3/ISIS/ODL encoder output for generated modules, generated
         ASCII documents) ending in END + separator in {"", LF, CRLF, SP, ";", NUL}
         + trailing bytes in {empty, random binary, valid UTF-8 with and without
         white space, NUL runs, lone continuation bytes, a multi-byte character cut
         at the end, long unbroken decodable runs}; the first undecodable byte is
         also placed at offsets 8192*k + {-2..2} from the start of the file (buffer
         boundaries) x the ways of handing the data over: load(str path),
         load(Path), load(os.DirEntry), load(object with __fspath__), loadu(file: URL), load(text stream), load(binary file),
         load(BytesIO), loads(str) (when everything decodes), loads(bytes).
Oracle : every way returns a module equal to loads(label text alone); with the
         counting lexer passed as lexer_fn no token beyond the END statement is
         handed out, whatever follows.  Dump: for str path, Path, StringIO, text
         file (newline=""), BytesIO, binary file the data written equal
         dumps(m, **kw) (UTF-8 for binary targets) and the return value is the
         number of characters / bytes written.
"""
import codecs
import io
import os
import tempfile
import random
import pathlib
import shutil

import pvl
from hypothesis import given, seed as hseed, settings, HealthCheck, Phase
from hypothesis import strategies as st

from props import c01
from vlib import gen_text as gt
from vlib import gen_values as gv
from vlib import normalise as nm
from vlib.budget import BudgetExceeded, counting_lexer, backstop, WallClockBackstop
from vlib.dialects import make_encoder
from vlib.runner import VERIF

ID = "C09"
LEVEL = "exploration"
BUDGET = {"quick": 200, "thorough": 1200}
RULE = (
    "load case = (label text ending in END, separator, trailing bytes); every way of "
    "handing it over is one evaluation. dump case = (module spec, encoder options, "
    "target kind). Non-trivial = the trailing part is non-empty (load) / the target "
    "is a stream or the text is non-ASCII (dump); distinct by (label, separator, "
    "trailing digest, way). Trailing runs: quick <= 40 000 bytes, thorough up to "
    "1 000 000."
)
ASSUMPTIONS = [
    "files are read with the UTF-8 default encoding (PYTHONUTF8=1)",
    "a label whose END is directly followed by other characters (separator '') is "
    "only generated with an empty tail",
]

WAYS = ["text-stream-universal", "path-str", "path-Path", "path-DirEntry",
        "path-fspath-object", "file-URL",
        "text-stream", "binary-file", "BytesIO", "loads-str", "loads-bytes",
        "text-stream-after-readline", "binary-file-after-readline",
        # streams that cannot be rewound (what a program gets on its standard input)
        "text-pipe", "binary-pipe"]
HEADER = "/* header record that the caller reads off first */\n"


class FsPath:
    """An os.PathLike that is neither str nor pathlib.Path."""

    def __init__(self, p):
        self._p = p

    def __fspath__(self):
        return self._p


FILE_NAMES = ["label.img", "label.img", "mission data/product one.img", "caf\u00e9 #2.img",
              "100%/a+b.lbl", "dir.with.dots/x%20y.IMG", "\u00b5m/\u4e2d.lbl", "a&b=c;d.img"]


def workdir():
    d = os.path.join(VERIF, ".work", f"c09-{os.getpid()}")
    os.makedirs(d, exist_ok=True)
    return d


@st.composite
def labels(draw):
    """Label text that ends with the END keyword (no delimiter); one in six has its
    line ends rewritten to CR LF or to bare CR (how the same label looks after a trip
    through another operating system)."""
    t = draw(labels0())
    k = draw(st.integers(0, 11))
    if k == 0:
        t = t.replace("\r\n", "\n").replace("\n", "\r\n")
    elif k == 1:
        t = t.replace("\r\n", "\n").replace("\n", "\r")
    elif k == 3:
        # saved by an editor that puts a byte order mark in front (the mark is a
        # character of the text like any other: every way of loading must agree on it)
        t = "\ufeff" + t
    elif k == 2:
        # mixed: some line ends are bare CR, others LF
        rng = random.Random(draw(st.integers(0, 2 ** 32)))
        t = "".join("\r" if (c == "\n" and rng.random() < 0.5) else c
                    for c in t.replace("\r\n", "\n"))
    return t


@st.composite
def labels0(draw):
    src = draw(st.sampled_from(["enc", "enc", "gen", "utf8", "commented"]))
    if src == "commented":
        # the default grammar's comments, '#' to the end of the line among them
        doc = draw(gt.documents("default", min_statements=1))
        toks = list(doc["tokens"])
        for i, tk in enumerate(toks):
            if tk[1] == "end":
                toks = toks[:i]
                break
        end = draw(st.sampled_from(["END", "END", "End", "end", "eNd"]))
        doc2 = dict(tokens=toks + [gt.T(end, "end")], expected=None, tail="")
        t = gt.seeded_layout(doc2, "default", draw(st.integers(0, 2 ** 32)), "full")
        k = t.upper().rfind("END")
        t = t[:k + 3]
        if not t.isascii() or not t.upper().endswith("END") or "#" not in t:
            t = "a = 1 # one\nb = 2 # two -\nc = 3\n" + end
        return t
    if src == "utf8":
        # a UTF-8 label with characters beyond ASCII (units like the micro sign,
        # names of people and places in strings)
        doc = draw(gt.documents("default", min_statements=1))
        toks = list(doc["tokens"])
        for i, tk in enumerate(toks):
            if tk[1] == "end":
                toks = toks[:i]
                break
        extra = draw(st.sampled_from([
            [gt.T("note"), gt.T("=", "eq"), gt.T('"caf\u00e9 \u00b5m"', "quoted")],
            [gt.T("unit"), gt.T("=", "eq"), gt.T("5", "word"), gt.T("<\u00b5m>", "units")],
            [gt.T("who"), gt.T("=", "eq"), gt.T("'\u0141\u00f3d\u017a \u4e2d'", "quoted")]]))
        k = draw(st.integers(0, 1))
        toks = (extra + toks) if k else (toks + extra)
        doc2 = dict(tokens=toks + [gt.T("END", "end")], expected=None, tail="")
        t = gt.seeded_layout(doc2, "default", draw(st.integers(0, 2 ** 32)),
                             "light").rstrip()
        if not t.upper().endswith("END"):
            t = "u = \"\u00b5\"\nEND"
        return t
    if src == "enc":
        enc = draw(st.sampled_from(["PDS3", "ISIS", "ODL"]))
        case = draw(c01.cases(enc))
        try:
            t = make_encoder(enc, **case["cfg"]).encode(gv.build_module(case["spec"]))
        except (ValueError, TypeError):
            t = "a = 1\r\nEND\r\n"
        if not t.isascii():
            t = "a = 1\r\nEND\r\n"
        t = t.rstrip("\r\n").rstrip(";")
    else:
        d = draw(st.sampled_from(["ODL", "PDS3"]))
        doc = draw(gt.documents(d, min_statements=1))
        toks = list(doc["tokens"])
        for i, tk in enumerate(toks):
            if tk[1] == "end":
                toks = toks[:i]          # drop END and a ';' after it
                break
        doc2 = dict(tokens=toks + [gt.T("END", "end")], expected=None, tail="")
        t = gt.seeded_layout(doc2, d, draw(st.integers(0, 2 ** 32)), "light").rstrip()
        if not t.isascii() or not t.upper().endswith("END"):
            t = "a = 1\nEND"
    return t


def tails(maxrun):
    binary = st.binary(min_size=1, max_size=300)
    utf8 = st.text(min_size=1, max_size=200).map(
        lambda s: s.encode("utf-8", "ignore")).filter(len)
    nospace = st.text(alphabet=st.characters(min_codepoint=0x21, max_codepoint=0x7e),
                      min_size=1, max_size=300).map(lambda s: s.encode())
    nuls = st.integers(1, 5000).map(lambda n: b"\0" * n)
    cont = st.integers(1, 50).map(lambda n: b"\x80" * n)
    cut = st.sampled_from([b"abc\xe2\x82", b"\xf0\x9f\x98", b" ok \xc3"])
    longrun = st.tuples(st.integers(1000, maxrun), st.sampled_from([b"A", b"x1", b"\xc3\xa9"]),
                        st.sampled_from([b"", b"\xff", b"\xfe\x00\x01"])).map(
        lambda t: (t[1] * (t[0] // len(t[1]))) + t[2])
    return st.one_of(st.just(b""), binary, binary, utf8, nospace, nuls, cont, cut,
                     longrun)


@st.composite
def load_cases(draw, maxrun):
    label = draw(labels())
    tail = draw(tails(maxrun))
    sep = draw(st.sampled_from(["\n", "\r\n", " ", ";", "\0", "\n", ""]))
    if sep == "" and tail:
        sep = "\n"
    data = label.encode("utf-8") + sep.encode("ascii") + tail
    # buffer-boundary class: move the first undecodable byte to 8192*k + delta
    if draw(st.integers(0, 4)) == 0:
        k = draw(st.integers(1, 3))
        delta = draw(st.integers(-2, 2))
        target = 8192 * k + delta
        head = label.encode("utf-8") + b"\n"
        if target > len(head):
            data = head + b" " * (target - len(head)) + b"\xff\xfe" + tail
    # long UTF-8 label class: a run of multi-byte characters (in a string, a comment or
    # a '#' comment) crosses one or two 8192-byte block boundaries at every possible
    # alignment, END lies beyond them, and the first undecodable byte comes later
    if draw(st.integers(0, 5)) == 0:
        ch = draw(st.sampled_from(["\u00e9", "\u4e2d", "\U0001F600", "\u00b5"]))
        r = draw(st.integers(0, 4))
        nblocks = draw(st.integers(1, 2))
        n = (8192 * nblocks) // len(ch.encode("utf-8")) + draw(st.integers(1, 40))
        shape = draw(st.sampled_from(["quoted", "comment", "hash", "units"]))
        run = "x" * r + ch * n
        if shape == "quoted":
            label = f'a = 1\nnote = "{run}"\nb = 2\nEND'
        elif shape == "comment":
            label = f"a = 1\n/* {run} */\nb = 2\nEND"
        elif shape == "hash":
            label = f"a = 1\n # {run}\nb = 2\nEND"
        else:
            label = f"a = 1 <{run}>\nb = 2\nEND"
        filler = b" " * draw(st.sampled_from([0, 1, 5, 100, 8000, 8192, 9000]))
        data = label.encode("utf-8") + b"\n" + filler + \
            draw(st.sampled_from([b"\xff", b"\xff\xfe\x00", b"\x80", b"\xc3"])) + tail
    return dict(label=label, data=data.hex() if len(data) < 4000 else None,
                _data=data)


def load_from_pipe(data, text, lf):
    """pvl.load() of the read end of an OS pipe that a thread fills with *data*."""
    import threading
    r, w = os.pipe()

    def feed():
        try:
            with os.fdopen(w, "wb") as out:
                out.write(data)
        except OSError:
            pass                   # the reader gave up early

    th = threading.Thread(target=feed, daemon=True)
    th.start()
    try:
        if text:
            with os.fdopen(r, "r", encoding="utf-8", newline="") as f:
                return pvl.load(f, lexer_fn=lf)
        with os.fdopen(r, "rb") as f:
            return pvl.load(f, lexer_fn=lf)
    finally:
        th.join(30)


def load_all_ways(label, data):
    """None or (signature, detail)."""
    d = workdir()
    # where the product lies is part of the hand-over: directory and file names with
    # blanks, non-ASCII letters, '%', '#', '+' (what a file: URL has to quote)
    import zlib
    name = FILE_NAMES[zlib.crc32(data) % len(FILE_NAMES)]
    path = os.path.join(d, *name.split("/"))
    os.makedirs(os.path.dirname(path), exist_ok=True)
    with open(path, "wb") as f:
        f.write(data)
    lf0 = counting_lexer()
    try:
        want_m = pvl.loads(label, lexer_fn=lf0)
    except BaseException as e:
        return ("skip", f"label alone does not load: {type(e).__name__}")
    want = nm.canon(want_m)
    end_pos = len(label) - 3
    if lf0.stats["maxpos"] != end_pos:
        # the final END is not read as the END statement (it sits in a '#' comment
        # that a bare CR does not end, say): what follows it is then part of the label.
        # Unless the loader took dash continuations out of the text before lexing it:
        # positions then count in the shortened text, and the END statement is the last
        # token it handed out
        import re as _re
        if _re.search(r"-[\n\r\f]", label) and \
                str(lf0.stats["maxtok"]).casefold() == "end" and \
                lf0.stats["maxpos"] < end_pos:
            end_pos = lf0.stats["maxpos"]
        else:
            return ("skip", "the label's last word is not its END statement")
    try:
        whole = data.decode("utf-8")
    except UnicodeDecodeError:
        whole = None
    for way in WAYS:
        lf = counting_lexer()
        try:
            with backstop(900):
                if way == "path-str":
                    m = pvl.load(path, lexer_fn=lf)
                elif way == "path-Path":
                    m = pvl.load(pathlib.Path(path), lexer_fn=lf)
                elif way == "path-DirEntry":
                    entry = [e for e in os.scandir(os.path.dirname(path))
                             if e.name == os.path.basename(path)][0]
                    m = pvl.load(entry, lexer_fn=lf)
                elif way == "path-fspath-object":
                    m = pvl.load(FsPath(path), lexer_fn=lf)
                elif way == "file-URL":
                    m = pvl.loadu(pathlib.Path(path).as_uri(), lexer_fn=lf)
                elif way == "text-stream":
                    with open(path, "r", encoding="utf-8", newline="") as f:
                        m = pvl.load(f, lexer_fn=lf)
                elif way == "binary-file":
                    with open(path, "rb") as f:
                        m = pvl.load(f, lexer_fn=lf)
                elif way == "text-stream-universal":
                    # the ordinary open(path): Python hands CR LF and CR over as LF.
                    # Same module, unless a line end is content (units; a '#' comment
                    # ends at LF only) - the default loader folds those in strings
                    import re as _re
                    if "\r" not in label or whole is None or "#" in label or \
                            _re.search(r"<[^<>]*\r[^<>]*>", label):
                        continue
                    with open(path, "r", encoding="utf-8") as f:
                        m = pvl.load(f, lexer_fn=lf)
                elif way.endswith("-after-readline"):
                    # the caller has consumed a header line: load() must go on from
                    # the caller's position, whatever the stream has buffered
                    hpath = path + ".hdr"
                    with open(hpath, "wb") as f:
                        f.write(HEADER.encode("ascii") + data)
                    if way.startswith("text"):
                        with open(hpath, "r", encoding="utf-8", newline="") as f:
                            try:
                                f.readline()
                            except UnicodeDecodeError:
                                continue     # the caller could not even read the header
                            m = pvl.load(f, lexer_fn=lf)
                    else:
                        with open(hpath, "rb") as f:
                            f.readline()
                            m = pvl.load(f, lexer_fn=lf)
                elif way == "BytesIO":
                    m = pvl.load(io.BytesIO(data), lexer_fn=lf)
                elif way in ("text-pipe", "binary-pipe"):
                    if way == "text-pipe" and whole is None:
                        continue   # a text stream that cannot be rewound cannot
                        #            give back what it failed to decode
                    m = load_from_pipe(data, way == "text-pipe", lf)
                elif way == "loads-str":
                    if whole is None:
                        continue
                    m = pvl.loads(whole, lexer_fn=lf)
                else:
                    m = pvl.loads(data, lexer_fn=lf)
        except WallClockBackstop:
            raise RuntimeError(f"inconclusive: backstop hit in way {way}")
        except BudgetExceeded:
            return (f"C09/{way}/spins", f"label={label[-80:]!r} tail={data[len(label):len(label)+40]!r}")
        except Exception as e:
            return (f"C09/{way}/raises/{type(e).__name__}",
                    f"{way}: {e!r:.200}; label ends {label[-60:]!r}; "
                    f"tail starts {data[len(label):len(label) + 40]!r} "
                    f"(file of {len(data)} bytes)")
        got = nm.canon(m)
        if got != want:
            dd = nm.diff(want, got)
            return (f"C09/{way}/module-differs",
                    f"{way}: at {dd[0]} label alone gives {dd[1]!r:.100}, this way "
                    f"gives {dd[2]!r:.100}; label ends {label[-60:]!r}; tail starts "
                    f"{data[len(label):len(label) + 40]!r} (file of {len(data)} bytes)")
        if lf.stats["maxpos"] > end_pos:
            return (f"C09/{way}/token-beyond-END",
                    f"{way}: a token starting at {lf.stats['maxpos']} "
                    f"({lf.stats['maxtok']!r}) was requested, END is at {end_pos}; "
                    f"tail starts {data[len(label):len(label) + 40]!r}")
        if lf.stats.get("maxpos_all", -1) > max(end_pos, len(label) - 3):
            # some other pass over the text (not the parse itself) lexed beyond END
            # (such a pass reads the text as written: END is at len(label) - 3 there)
            return (f"C09/{way}/token-beyond-END-in-a-pre-pass",
                    f"{way}: a token starting at {lf.stats['maxpos_all']} "
                    f"({lf.stats['maxtok_all']!r}) was requested from one of "
                    f"{lf.stats.get('lexers')} token generators, END is at {end_pos}; "
                    f"tail starts {data[len(label):len(label) + 40]!r}")
    return None


TARGETS = ["path-str", "path-Path", "StringIO", "text-file", "BytesIO", "binary-file",
           # text and binary streams that are not io.TextIOBase / io.BufferedIOBase
           # instances: the tempfile wrappers and a codecs stream writer
           "tempfile-text", "tempfile-binary", "spooled-text", "codecs-writer"]


def dump_all_targets(enc, cfg, spec):
    m = gv.build_module(spec)
    try:
        text = pvl.dumps(gv.build_module(spec), encoder=make_encoder(enc, **cfg))
    except (ValueError, TypeError):
        return "refused"
    d = workdir()
    for target in TARGETS:
        path = os.path.join(d, "out.lbl")
        if os.path.exists(path):
            os.remove(path)
        e = make_encoder(enc, **cfg)
        try:
            if target == "path-str" and enc == "PDS3":
                # keyword arguments instead of an encoder instance: they must reach
                # the default (PDS3) encoder exactly as they do through dumps()
                ret = pvl.dump(m, path, **cfg)
                got = open(path, "rb").read()
                wantdata = pvl.dumps(gv.build_module(spec), **cfg).encode("utf-8")
                wantret = len(wantdata.decode("utf-8"))
            elif target == "path-str":
                ret = pvl.dump(m, path, encoder=e)
                got = open(path, "rb").read()
                wantdata, wantret = text.encode("utf-8"), len(text)
            elif target == "path-Path":
                ret = pvl.dump(m, pathlib.Path(path), encoder=e)
                got = open(path, "rb").read()
                wantdata, wantret = text.encode("utf-8"), len(text)
            elif target == "StringIO":
                s = io.StringIO(newline="")
                ret = pvl.dump(m, s, encoder=e)
                got = s.getvalue()
                wantdata, wantret = text, len(text)
            elif target == "text-file":
                with open(path, "w", encoding="utf-8", newline="") as f:
                    ret = pvl.dump(m, f, encoder=e)
                got = open(path, "rb").read()
                wantdata, wantret = text.encode("utf-8"), len(text)
            elif target == "tempfile-text":
                with tempfile.NamedTemporaryFile("w+", encoding="utf-8", newline="",
                                                 dir=d) as f:
                    ret = pvl.dump(m, f, encoder=e)
                    f.seek(0)
                    got = f.read()
                wantdata, wantret = text, len(text)
            elif target == "spooled-text":
                with tempfile.SpooledTemporaryFile(mode="w+", encoding="utf-8",
                                                   newline="", dir=d) as f:
                    ret = pvl.dump(m, f, encoder=e)
                    f.seek(0)
                    got = f.read()
                wantdata, wantret = text, len(text)
            elif target == "tempfile-binary":
                with tempfile.NamedTemporaryFile("w+b", dir=d) as f:
                    ret = pvl.dump(m, f, encoder=e)
                    f.seek(0)
                    got = f.read()
                wantdata = text.encode("utf-8")
                wantret = len(wantdata)
            elif target == "codecs-writer":
                with codecs.open(path, "w", "utf-8") as f:
                    ret = pvl.dump(m, f, encoder=e)
                got = open(path, "rb").read()
                wantdata = text.encode("utf-8")
                wantret = ret      # a StreamWriter's write() reports nothing
            elif target == "BytesIO":
                b = io.BytesIO()
                ret = pvl.dump(m, b, encoder=e)
                got = b.getvalue()
                wantdata = text.encode("utf-8")
                wantret = len(wantdata)
            else:
                with open(path, "wb") as f:
                    ret = pvl.dump(m, f, encoder=e)
                got = open(path, "rb").read()
                wantdata = text.encode("utf-8")
                wantret = len(wantdata)
        except Exception as ex:
            return (f"C09/dump/{target}/raises/{type(ex).__name__}", repr(ex)[:200])
        if got != wantdata:
            return (f"C09/dump/{target}/content-differs",
                    f"{target}: wrote {got[:120]!r}, dumps() gives {wantdata[:120]!r}")
        if ret != wantret:
            return (f"C09/dump/{target}/return-value",
                    f"{target}: returned {ret!r}, {wantret} written")
    return None


def random_loads(acc, n, seed, maxrun):
    @hseed(seed)
    @settings(max_examples=n, database=None, deadline=None,
              phases=[Phase.generate], suppress_health_check=list(HealthCheck))
    @given(load_cases(maxrun))
    def body(case):
        if acc.expired():
            acc.notes["budget_exhausted"] = 1
            return
        data = case["_data"]
        r = load_all_ways(case["label"], data)
        if r is not None and r[0] == "skip":
            acc.event("skipped-label")
            return
        tail = data[len(case["label"].encode("utf-8")):]
        nt = len(tail) > 1
        acc.case(key=repr((case["label"], tail[:64], len(tail))), nontrivial=nt,
                 sample={"label_end": case["label"][-40:],
                         "tail_start": repr(tail[:30]), "file_bytes": len(data)}
                 if nt else None, n=len(WAYS))
        try:
            data.decode("utf-8")
            acc.event("tail:decodable")
        except UnicodeDecodeError as e:
            acc.event("tail:undecodable")
            if e.start % 8192 in (0, 1, 2, 8190, 8191):
                acc.event("tail:first-bad-byte-at-buffer-boundary")
        if len(tail) > 10000:
            acc.event("tail:long-run")
        if r is not None:
            acc.fail(r[0], dict(kind="load", label=case["label"],
                                data=data[:200000].hex()), r[1])

    try:
        body()
    finally:
        shutil.rmtree(workdir(), ignore_errors=True)


def random_dumps(acc, n, seed):
    @hseed(seed)
    @settings(max_examples=n, database=None, deadline=None,
              phases=[Phase.generate], suppress_health_check=list(HealthCheck))
    @given(st.sampled_from(["PDS3", "PVL", "ODL", "ISIS"]).flatmap(c01.cases))
    def body(case):
        if acc.expired():
            acc.notes["budget_exhausted"] = 1
            return
        r = dump_all_targets(case["enc"], case["cfg"], case["spec"])
        if r == "refused":
            acc.event("dump:refused")
            return
        acc.case(key=repr(case), nontrivial=True,
                 sample={"dump": case["enc"], "cfg": case["cfg"]}, n=len(TARGETS))
        acc.event("dump:" + case["enc"])
        if r is not None:
            acc.fail(r[0], dict(kind="dump", **case), r[1])

    try:
        body()
    finally:
        shutil.rmtree(workdir(), ignore_errors=True)


STRICT_WAYS = ["path-str", "text-stream", "binary-file", "BytesIO", "loads-str",
               "loads-bytes"]


def _grammar(name):
    from pvl.grammar import PVLGrammar, ODLGrammar, PDSGrammar, ISISGrammar
    return {"PVL": PVLGrammar, "ODL": ODLGrammar, "PDS3": PDSGrammar,
            "ISIS": ISISGrammar}[name]()


def load_strict(gname, label, data):
    """The same hand-overs with a strict grammar (grammar=...): what follows END may
    even be outside that grammar's character set."""
    d = workdir()
    path = os.path.join(d, "strict.img")
    with open(path, "wb") as f:
        f.write(data)
    lf0 = counting_lexer()
    try:
        want_m = pvl.loads(label, grammar=_grammar(gname), lexer_fn=lf0)
    except BaseException as e:
        return ("skip", f"label alone does not load: {type(e).__name__}")
    want = nm.canon(want_m)
    end_pos = len(label) - 3
    if lf0.stats["maxpos"] != end_pos:
        # (as in load_all_ways) the final END is not read as the END statement under
        # this grammar - it sits in a comment, say - so what follows belongs to the label
        return ("skip", "the label's last word is not its END statement")
    try:
        whole = data.decode("utf-8")
    except UnicodeDecodeError:
        whole = None
    for way in STRICT_WAYS:
        lf = counting_lexer()
        kw = dict(grammar=_grammar(gname), lexer_fn=lf)
        try:
            with backstop(900):
                if way == "path-str":
                    m = pvl.load(path, **kw)
                elif way == "text-stream":
                    with open(path, "r", encoding="utf-8", newline="") as f:
                        m = pvl.load(f, **kw)
                elif way == "binary-file":
                    with open(path, "rb") as f:
                        m = pvl.load(f, **kw)
                elif way == "BytesIO":
                    m = pvl.load(io.BytesIO(data), **kw)
                elif way == "loads-str":
                    if whole is None:
                        continue
                    m = pvl.loads(whole, **kw)
                else:
                    m = pvl.loads(data, **kw)
        except WallClockBackstop:
            raise RuntimeError(f"inconclusive: backstop hit in way {way}")
        except BudgetExceeded:
            return (f"C09/strict-{gname}/{way}/spins", f"label={label[-80:]!r}")
        except Exception as e:
            return (f"C09/strict-{gname}/{way}/raises/{type(e).__name__}",
                    f"{way} with grammar={gname}: {e!r:.200}; label ends "
                    f"{label[-60:]!r}; tail starts "
                    f"{data[len(label):len(label) + 40]!r}")
        got = nm.canon(m)
        if got != want:
            dd = nm.diff(want, got)
            return (f"C09/strict-{gname}/{way}/module-differs",
                    f"{way} with grammar={gname}: at {dd[0]} label alone gives "
                    f"{dd[1]!r:.100}, this way gives {dd[2]!r:.100}; tail starts "
                    f"{data[len(label):len(label) + 40]!r}")
        if lf.stats["maxpos"] > end_pos:
            return (f"C09/strict-{gname}/{way}/token-beyond-END",
                    f"{way} with grammar={gname}: a token starting at "
                    f"{lf.stats['maxpos']} was requested, END is at {end_pos}")
    return None


@st.composite
def strict_cases(draw, maxrun):
    gname = draw(st.sampled_from(["PVL", "ODL", "PDS3", "ISIS"]))
    label = draw(labels())
    # what may stand directly after END without being part of the word: a character
    # outside the grammar's character set
    foreign = [b"\x00", b"\x00\x00\x00", b"\x01x", b"\x7f"] \
        if gname in ("PVL", "ISIS") else ["\u00e9".encode(), "\u00b5m".encode(),
                                         "\u2028".encode()]
    glued = draw(st.integers(0, 2)) == 0
    if glued:
        tail = draw(st.sampled_from(foreign)) + draw(tails(maxrun))
        sep = ""
    else:
        tail = draw(st.one_of(st.sampled_from(foreign), tails(maxrun)))
        sep = draw(st.sampled_from(["\n", "\r\n", " ", ";", "\n"]))
    data = label.encode("utf-8") + sep.encode("ascii") + tail
    return dict(grammar=gname, label=label, _data=data, glued=glued)


def random_strict_loads(acc, n, seed, maxrun):
    @hseed(seed)
    @settings(max_examples=n, database=None, deadline=None,
              phases=[Phase.generate], suppress_health_check=list(HealthCheck))
    @given(strict_cases(maxrun))
    def body(case):
        if acc.expired():
            acc.notes["budget_exhausted"] = 1
            return
        data = case["_data"]
        r = load_strict(case["grammar"], case["label"], data)
        if r is not None and r[0] == "skip":
            acc.event(f"strict:{case['grammar']}:label-not-in-dialect")
            return
        tail = data[len(case["label"].encode("utf-8")):]
        acc.event(f"strict:{case['grammar']}:" + ("glued" if case["glued"] else "sep"))
        acc.case(key=repr((case["grammar"], case["label"], tail[:64], len(tail))),
                 nontrivial=len(tail) > 1, n=len(STRICT_WAYS))
        if r is not None:
            acc.fail(r[0], dict(kind="strict", grammar=case["grammar"],
                                label=case["label"], data=data[:200000].hex()), r[1])

    try:
        body()
    finally:
        shutil.rmtree(workdir(), ignore_errors=True)


FIXED_LABELS = [
    "a = 1 # c\rb = 2\nEND", "a = 1\r# comment\rb = 2\nc = 3\nEND",
    "a = \"x\ry\"\r\nb = 'p\rq'\rEND", "a = 1 # c -\rb = 2\nEND", "a = 1\rb = 2\rEND",
    "a = 1\r\nb = (1,\r\n 2)\r\nEND", "a = x-\rb = 2\nEND", "a = \"l1\r\nl2\"\nEND",
    "/* c\rd */ a = 1\rEND", "a = 1 <m\rs>\nEND", "a = 1\n\rEND", "a = 1\x0b\x0cb = 2\x0cEND",
    "a = \"caf\u00e9\"\rEND", "note = \"a -\r   b\"\rEND",
    "a = 1 # ---\nb = 2\nEND", "# ---- geometry ----\na = 1\nEND", "a = 1 # x-\r\nEND",
    # dash continuations in CR LF and CR-only labels (an ordinarily opened text stream
    # hands them over with LF)
    "a = la-\r\n   zy\r\nb = 2\r\nEND", "note = \"the la-\r\n   zy dog\"\r\nEND",
    "a = (x-\r\n\ty, 2)\r\nEND", "a = la-\r   zy\rEND", "a = \"p -\r\n\r\n q\"\r\nb = x-\r\n\r\ny\r\nEND",
    # the End Statement as ISIS writes it, and in small letters
    "a = 1 # ---\nb = 2\nEnd", "# ---- Core ----\nObject = IsisCube\n  a = 1\nEnd_Object\nEnd",
    "a = 1 # x -\nend", "Group = g\n  k = v # --\nEnd_Group\nEnd", "a = (1, # -\n 2)\neNd",
    "\ufeffa = 1\nEND", "\ufeffPDS_VERSION_ID = PDS3\r\nb = \"caf\u00e9\"\r\nEND", "\ufeff\nEND",
]
FIXED_TAILS = [b"", b"\n", b"\r", b"\n\xff", b"\nfoo bar = baz", b" # -\n x y z", b"\r\nbinary\x00\xfe", b" \xfe", b"\r\xc3"]


def fixed_loads(acc):
    """Hand-written labels with bare CR, CR LF and mixed line ends (in comments, strings,
    units and between statements) x tails x every way of handing the data over."""
    try:
        for label in FIXED_LABELS:
            for tail in FIXED_TAILS:
                data = label.encode("utf-8") + tail
                r = load_all_ways(label, data)
                if r is not None and r[0] == "skip":
                    acc.event("fixed:skipped-label")
                    continue
                acc.event("fixed:labels-x-tails")
                acc.case(key=repr(("fixed", label, tail)), nontrivial=len(tail) > 1,
                         n=len(WAYS))
                if r is not None:
                    acc.fail(r[0], dict(kind="load", label=label, data=data.hex()), r[1])
    finally:
        shutil.rmtree(workdir(), ignore_errors=True)


def shards(tier, seed):
    n = 160 if tier == "quick" else 1200
    maxrun = 40000 if tier == "quick" else 1000000
    out = [("random_loads", dict(n=n, seed=seed * 1000 + j, maxrun=maxrun))
           for j in range(12)]
    out += [("random_dumps", dict(n=n * 2, seed=seed * 1000 + 50 + j))
            for j in range(4)]
    out += [("random_strict_loads", dict(n=n, seed=seed * 1000 + 70 + j,
                                         maxrun=min(maxrun, 100000)))
            for j in range(4)]
    out.append(("fixed_loads", {}))
    return out


def replay(case):
    try:
        if case["kind"] == "strict":
            r = load_strict(case["grammar"], case["label"], bytes.fromhex(case["data"]))
            return None if (r is None or r[0] == "skip") else r
        if case["kind"] == "load":
            r = load_all_ways(case["label"], bytes.fromhex(case["data"]))
            return None if (r is None or r[0] == "skip") else r
        r = dump_all_targets(case["enc"], case["cfg"], case["spec"])
        return None if r in (None, "refused") else r
    finally:
        shutil.rmtree(workdir(), ignore_errors=True)
