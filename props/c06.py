"""C06 - loaders terminate and fail only with the documented error types.

Domain : (a) exhaustive: every string of length <= L over a 21-symbol PVL alphabet
             and every token sequence of length <= K over a 17-token vocabulary;
         (b) Hypothesis: token soup with random separators, st.text() over full
             Unicode (astral planes, lone surrogates), mutations (delete / insert /
             duplicate / truncate) of the labels under tests/data;
         all x six parser variants.
Oracle : the load returns a module or raises LexerError / ParseError.  Any other
         exception type is a failure; non-termination is decided by a token-pull
         budget (vlib.budget), never by wall clock.
"""
import glob
import itertools
import json
import os
import time
import traceback

from hypothesis import given, seed as hseed, settings, HealthCheck, Phase
from hypothesis import strategies as st

from vlib.budget import BudgetExceeded
from vlib.dialects import budget_parser, PARSERS
from vlib.shrink import shrink_seq

ID = "C06"
LEVEL = "exploration"
BUDGET = {"quick": 200, "thorough": 1200}
REPO = os.environ.get("VERIF_REPO", "/repo")

ALPHABET = ["a", "1", " ", "=", ";", "(", ")", "{", "}", "<", ">", ",", "'", '"',
            "#", "-", "+", ".", "\n", "/", "*"]
VOCAB = ["a", "=", "1", '"s"', "GROUP", "OBJECT", "END_GROUP", "END_OBJECT", "END",
         "(", ")", "{", "}", ",", ";", "<m>", "/*c*/"]
RULE = (
    "exhaustive: all strings of length <= L (quick 3, thorough 5) over the alphabet "
    f"{''.join(ALPHABET)!r} and all token sequences (single-blank separated) of "
    "length <= K (quick 4, thorough 5; 6 for the default loader while the budget "
    "lasts) over the vocabulary " + " ".join(VOCAB) + ", plus 'a = ' followed by "
    "every sequence of <= 5 (quick) / 7 (thorough) tokens over 1 ( ) { } , <m>; every "
    "sequence of <= 4 (quick) / 5 (thorough) items over a vocabulary of '#' comments, "
    "dash continuations and '#' characters that start no comment; "
    "random: token soup, "
    "st.text() over full Unicode, and character-level mutations of tests/data "
    "labels; each x 6 parser variants. Non-trivial = the lexer handed the parser "
    ">= 2 tokens (counted through the counting lexer); distinct by (variant, text)."
)
ASSUMPTIONS = [
    "termination is decided by a token-pull budget of 60*len(text)+2000 lexer "
    "pulls: sound for loops that touch the token stream (all parser loops do)",
    "RecursionError is ignored only for bracket/block nesting deeper than 50",
    "a load of a text of <= 2000 characters that has used 20 s of CPU time (ITIMER_VIRTUAL) "
    "is taken not to terminate: such loads take milliseconds, so this is no timing oracle "
    "in the usual sense, but it is the one place where time decides a verdict",
]


def EXHAUSTIVE(tier):
    return True


def innermost_pvl_frame(tb):
    name = "?"
    for fr in traceback.extract_tb(tb):
        if os.sep + "pvl" + os.sep in fr.filename:
            name = f"{os.path.basename(fr.filename)}:{fr.name}"
    return name


def nesting_depth(text):
    depth = best = 0
    for c in text:
        if c in "({":
            depth += 1
            best = max(best, depth)
        elif c in ")}":
            depth = max(0, depth - 1)
    low = text.lower()
    return max(best, low.count("group") + low.count("object"))


class CpuTimeExceeded(BaseException):
    pass


CPU_LIMIT_S = 20.0
_HANDLER = []
_CPU_HITS = [0]


def _cpu_guard(on):
    """ITIMER_VIRTUAL (CPU time of this process, so a busy machine does not matter):
    a load of a text of at most 2000 characters takes milliseconds; one that is still
    computing after 20 s of CPU time - in a regular expression, say, where the
    token-pull budget cannot see it - is reported as not terminating."""
    import signal
    if not _HANDLER:
        def handler(signum, frame):
            raise CpuTimeExceeded()
        signal.signal(signal.SIGVTALRM, handler)
        _HANDLER.append(handler)
    # (once a process has seen three such loads the evidence is in: the rest of its
    # work goes on with a limit of 2 s, so that a tier still ends)
    limit = CPU_LIMIT_S if _CPU_HITS[0] < 3 else 2.0
    signal.setitimer(signal.ITIMER_VIRTUAL, limit if on else 0)


def load(d, text, deckw=None):
    """Returns (outcome, ntokens, signature|None, detail).  *deckw*: documented decoder
    options (real_cls, quantity_cls) - a parser configuration like any other."""
    p = budget_parser(d, deckw=deckw) if deckw else budget_parser(d)
    guard = len(text) <= 2000
    try:
        if guard:
            _cpu_guard(True)
        try:
            p.parse(text)
        finally:
            if guard:
                _cpu_guard(False)
        return ("module", p.lexer.stats["tokens"], None, "")
    except CpuTimeExceeded:
        _CPU_HITS[0] += 1
        return ("cpu", p.lexer.stats["tokens"], f"C06/{d}/cpu-time",
                f"still computing after {CPU_LIMIT_S if _CPU_HITS[0] <= 3 else 2.0:.0f} s of CPU time on a text of "
                f"{len(text)} characters: text={text!r}")
    except BudgetExceeded:
        return ("spins", p.lexer.stats["tokens"], f"C06/{d}/non-termination",
                f"token-pull budget exceeded: text={text!r}")
    except RecursionError:
        if nesting_depth(text) > 50:
            return ("deep-recursion", p.lexer.stats["tokens"], None, "")
        return ("fail", p.lexer.stats["tokens"], f"C06/{d}/RecursionError",
                f"RecursionError at ordinary depth: text={text[:300]!r}")
    except Exception as e:
        name = type(e).__name__
        if name in ("LexerError", "ParseError"):
            return (name, p.lexer.stats["tokens"], None, "")
        where = innermost_pvl_frame(e.__traceback__)
        fam = "omni" if d in ("ISISv", "default") else "strict"
        return ("fail", p.lexer.stats["tokens"], f"C06/{fam}/{name}@{where}",
                f"{d}: {name}: {str(e)[:200]} at {where}; text={text[:500]!r}")


def record(acc, d, text, r, klass):
    outcome, ntok, sig, detail = r
    nt = ntok >= 2
    acc.case(key=d + "\0" + text, nontrivial=nt,
             sample={"variant": d, "text": text[:120], "outcome": outcome}
             if nt and len(text) < 200 else None)
    acc.event(f"{klass}:{outcome}")
    if sig is not None:
        acc.fail(sig, dict(variant=d, text=text), detail)


def exhaustive_strings(acc, prefix, length):
    """All strings of exactly *length* starting with *prefix* x 6 variants."""
    rest = length - len(prefix)
    for tail in itertools.product(ALPHABET, repeat=rest):
        if acc.expired():
            acc.notes["budget_exhausted"] = 1
            return
        text = prefix + "".join(tail)
        for d in PARSERS:
            record(acc, d, text, load(d, text), "str")


BRACKETS = ["1", "(", ")", "{", "}", ",", "<m>"]


# '#' comments, dash continuations, and '#' characters that do not start a comment
HASHDASH = ["a", "=", "1", " #c\n", '"p #q -\n r"', "x-\n", " # --\n", "16#F#", "-\n",
            "/* #z -\n */", "<u#-\n>", "\n"]


def exhaustive_tokens(acc, first, length, variants, vocab="VOCAB"):
    vocab = {"VOCAB": VOCAB, "BRACKETS": BRACKETS, "HASHDASH": HASHDASH}[vocab]
    for tail in itertools.product(vocab, repeat=length - len(first)):
        if acc.expired():
            acc.notes["budget_exhausted"] = 1
            return
        text = " ".join(tuple(first) + tail)
        for d in variants:
            record(acc, d, text, load(d, text), "tok")


CONTEXTS = ["a = {t}", "a = ({t}, 1)", "a = (1, {t})", "a = {{{t}}}", "a = {t} <m>",
            "{t} = 1", "GROUP = {t} x = 1 END_GROUP", "a = 1 {t} b = 2",
            "GROUP = g x = 1 END_GROUP = {t}", "a = <{t}>", "a = 1 END {t}",
            "OBJECT = o a = {t} END_OBJECT"]


class PlainQuantity:
    """A substitute quantity class that accepts everything."""
    def __init__(self, value, units):
        self.value, self.units = value, units


# numerals at and beyond what float, int and Decimal can hold
EXTREME_NUMERALS = ["1E+1000000000000000000", "2.5e-9223372036854775808",
                    "3e99999999999999999999", "-1e999", "1e-999", "0e0", "1E400", ".5E-400",
                    "9" * 400, "-" + "9" * 400 + ".5", "1" * 4400, "16#" + "F" * 400 + "#",
                    "2#" + "1" * 5000 + "#", "1e+", "1e", "+.e5", "1.e+05", "00012", "-0",
                    "1_000", "١٢٣", "１２", "1e١", "NaN", "inf", "-Infinity", "1E9999999999999999999"]


def decoder_options(acc):
    """The documented decoder options as parser configurations: real_cls=Decimal, a substitute quantity_cls - over the curated numerals, numerals that
    leave the range of float / int / Decimal, and every statement context."""
    from decimal import Decimal
    from props import c17
    toks = EXTREME_NUMERALS + sorted(
        {t for t in c17.CURATED if t and "\n" not in t and (t[0].isdigit() or t[0] in "+-.")})
    # (not Fraction: Fraction("1E+1000000000000000000") itself never returns)
    options = [dict(real_cls=Decimal),
               dict(quantity_cls=PlainQuantity), dict(real_cls=Decimal,
                                                      quantity_cls=PlainQuantity)]
    for t in toks:
        for ctx in CONTEXTS[:6] + CONTEXTS[9:10]:
            text = ctx.replace("{t}", t)
            for d in PARSERS:
                for kw in options:
                    if acc.expired():
                        acc.notes["budget_exhausted"] = 1
                        return
                    try:
                        r = load(d, text, deckw=kw)
                    except TypeError as e:
                        if "unexpected keyword" in str(e):
                            acc.event("opt:option-not-taken-by-this-decoder")
                            continue
                        raise
                    record(acc, d + "+" + "+".join(sorted(kw)), text, r, "opt")


def tokens_in_context(acc):
    """Every curated borderline token text (numerals, dates, keywords in all their
    near-miss spellings - the list of C17) in every syntactic context x 6 variants."""
    from props import c17
    toks = sorted({t for t in c17.CURATED if t and "\n" not in t})
    for t in toks:
        if acc.expired():
            acc.notes["budget_exhausted"] = 1
            return
        for ctx in CONTEXTS:
            text = ctx.replace("{t}", t)
            for d in PARSERS:
                record(acc, d, text, load(d, text), "ctx")


def long_flat(acc):
    """Sets and sequences with thousands of elements at nesting depth 1 (a look-up
    table written as one sequence), closed and cut off, under every variant."""
    for n in (500, 984, 985, 1024, 2048, 5000):
        items = ", ".join(str(i) for i in range(n))
        for text in (f"a = ({items})\nEND\n", f"a = {{{items}}}\nEND\n",
                     f"a = ({items}", f"GROUP = g\n b = ({items}) <m>\nEND_GROUP\n",
                     "a = (" + ", ".join(f'"s{i}"' for i in range(n)) + ")"):
            for d in PARSERS:
                if acc.expired():
                    acc.notes["budget_exhausted"] = 1
                    return
                record(acc, d, text, load(d, text), "long-flat")


def corpus():
    files = sorted(glob.glob(os.path.join(REPO, "tests", "data", "**", "*"),
                             recursive=True))
    out = []
    for f in files:
        if os.path.isfile(f) and os.path.getsize(f) < 20000:
            try:
                out.append(open(f, encoding="utf-8").read())
            except (UnicodeDecodeError, OSError):
                pass
    return out


def random_texts(acc, n, seed):
    texts = corpus()
    soup_tok = st.sampled_from(VOCAB + ["b", "2.5", "'t'", "<", ">", "#x\n", "-",
                                        "2#1#", "12:00", "NULL", "BEGIN_GROUP",
                                        "2001-12+3", "12:00:60+07", "2001-366",
                                        "-16#1F#", "+2#0101#", "16#-1f#", "-2#+1#", "8#8#",
                                        "2001-01-01T12:00:00.123-08:00", "1e400",
                                        "2010-12-31T23:59:60", "+.5", "1e+", "16#",
                                        "=", "=", "(", ")"])
    sep = st.sampled_from([" ", " ", "", "\n", "\t", " \n "])
    soup = st.lists(st.tuples(soup_tok, sep), max_size=25).map(
        lambda l: "".join(a + b for a, b in l))
    uni = st.text(max_size=30)
    uni2 = st.text(alphabet=st.characters(codec="utf-8"), max_size=20).map(
        lambda s: "a = " + s)

    @st.composite
    def mutated(draw):
        t = draw(st.sampled_from(texts)) if texts else "a = 1"
        t = t[: draw(st.integers(0, min(len(t), 1500)))] if draw(st.booleans()) else t[:1500]
        ops = draw(st.lists(st.tuples(st.sampled_from(["del", "ins", "dup", "cut"]),
                                      st.integers(0, 2000),
                                      st.sampled_from(ALPHABET + ["END", "GROUP", "="])),
                            max_size=4))
        for op, pos, ch in ops:
            if not t:
                break
            i = pos % len(t)
            if op == "del":
                t = t[:i] + t[i + 1 + pos % 7:]
            elif op == "ins":
                t = t[:i] + ch + t[i:]
            elif op == "dup":
                t = t[:i] + t[i:i + 10] + t[i:]
            else:
                t = t[:i]
        return t

    strat = st.one_of(soup, soup, uni, uni2, mutated())

    @hseed(seed)
    @settings(max_examples=n, database=None, deadline=None,
              phases=[Phase.generate],
              suppress_health_check=list(HealthCheck))
    @given(strat, st.sampled_from(PARSERS))
    def body(text, d):
        if acc.expired():
            acc.notes["budget_exhausted"] = 1
            return
        record(acc, d, text, load(d, text), "rnd")

    body()


def atheris_shard(acc, seed, runs, use_corpus):
    """Coverage-guided fuzzing (atheris/libFuzzer) of the same oracle, one process.
    use_corpus=False starts from an empty corpus, True from tests/data + replays."""
    import shutil
    import subprocess
    import sys
    from vlib.runner import VERIF
    work = os.path.join(VERIF, ".work", f"atheris-{seed}-{int(use_corpus)}")
    shutil.rmtree(work, ignore_errors=True)
    corpus_dir = os.path.join(work, "corpus")
    os.makedirs(corpus_dir)
    if use_corpus:
        n = 0
        for t in corpus():
            for v in range(len(PARSERS)):
                n += 1
                with open(os.path.join(corpus_dir, f"seed{n}"), "wb") as f:
                    f.write(bytes([v]) + t[:600].encode("utf-8", "surrogatepass"))
        rdir = os.path.join(VERIF, "replays", "C06")
        for fn in sorted(os.listdir(rdir)) if os.path.isdir(rdir) else []:
            rec = json.load(open(os.path.join(rdir, fn)))["case"]
            with open(os.path.join(corpus_dir, "r" + fn), "wb") as f:
                f.write(bytes([PARSERS.index(rec["variant"])]) +
                        rec["text"].encode("utf-8", "surrogatepass"))
    env = dict(os.environ)
    cmd = [sys.executable, "-m", "vlib.fuzz_c06", work, corpus_dir,
           f"-runs={runs}", "-max_len=400", f"-seed={seed}", "-print_final_stats=0",
           f"-artifact_prefix={work}/", "-timeout=60", "-rss_limit_mb=4096"]
    budget = max(30, int(acc.deadline - time.time())) if acc.deadline else 600
    try:
        p = subprocess.run(cmd, cwd=VERIF, env=env, capture_output=True, text=True,
                           timeout=budget)
        out = (p.stdout or "") + (p.stderr or "")
    except subprocess.TimeoutExpired as e:
        out = "timeout"
        acc.notes["budget_exhausted"] = 1
    if "No module named" in out and "atheris" in out:
        acc.event("atheris:unavailable")
        shutil.rmtree(work, ignore_errors=True)
        return
    n = 0
    try:
        n = int(open(os.path.join(work, "count")).read().split()[0])
    except Exception:
        pass
    acc.evaluations += n
    acc.event("atheris:executions", n)
    acc.event("atheris:corpus" if use_corpus else "atheris:empty-corpus")
    fpath = os.path.join(work, "failures.jsonl")
    if os.path.exists(fpath):
        for line in open(fpath):
            rec = json.loads(line)
            acc.fail(rec["signature"], dict(variant=rec["variant"], text=rec["text"]),
                     rec["detail"])
    crashes = [f for f in os.listdir(work) if f.startswith(("crash-", "timeout-", "oom-"))]
    for c in crashes:
        data = open(os.path.join(work, c), "rb").read()
        if len(data) >= 2:
            variant = PARSERS[data[0] % len(PARSERS)]
            text = data[1:].decode("utf-8", "replace")
            acc.fail(f"C06/{variant}/libfuzzer-{c.split('-')[0]}",
                     dict(variant=variant, text=text), f"libFuzzer artifact {c}")
    shutil.rmtree(work, ignore_errors=True)


def shards(tier, seed):
    out = []
    L = 3 if tier == "quick" else 5
    for length in range(0, L + 1):
        if length <= 2:
            out.append(("exhaustive_strings", dict(prefix="", length=length)))
        elif length <= 4:
            for a in ALPHABET:
                out.append(("exhaustive_strings", dict(prefix=a, length=length)))
        else:
            for a in ALPHABET:
                for b in ALPHABET:
                    out.append(("exhaustive_strings",
                                dict(prefix=a + b, length=length)))
    K = 4 if tier == "quick" else 5
    for length in range(1, K + 1):
        for v in VOCAB:
            out.append(("exhaustive_tokens",
                        dict(first=[v], length=length, variants=list(PARSERS))))
    # values: everything after "a =" over a bracket-rich vocabulary
    B = 5 if tier == "quick" else 7
    for length in range(3, B + 3):
        for b in BRACKETS:
            out.append(("exhaustive_tokens",
                        dict(first=["a", "=", b], length=length,
                             variants=list(PARSERS), vocab="BRACKETS")))
    # comments and continuations: every sequence over the '#'/dash vocabulary
    H = 4 if tier == "quick" else 5
    for length in range(1, H + 1):
        for v in HASHDASH:
            out.append(("exhaustive_tokens",
                        dict(first=[v], length=length, variants=list(PARSERS),
                             vocab="HASHDASH")))
    out.append(("tokens_in_context", {}))
    out.append(("decoder_options", {}))
    out.append(("long_flat", {}))
    n = 400 if tier == "quick" else 12000
    for j in range(16):
        out.append(("random_texts", dict(n=n, seed=seed * 1000 + j)))
    if tier == "thorough":
        for j in range(8):
            out.append(("atheris_shard", dict(seed=seed * 100 + j + 1, runs=400000,
                                              use_corpus=bool(j % 2))))
        for a in VOCAB:
            for b in VOCAB:
                out.append(("exhaustive_tokens",
                            dict(first=[a, b], length=6, variants=["default"])))
    return out


def _variant(v):
    """'default+quantity_cls+real_cls' -> ('default', {...})  (Decimal stands for the
    real_cls options: it is the one the documentation names)"""
    from decimal import Decimal
    d, *opts = v.split("+")
    kw = {}
    if "real_cls" in opts:
        kw["real_cls"] = Decimal
    if "quantity_cls" in opts:
        kw["quantity_cls"] = PlainQuantity
    return d, kw


def replay(case):
    d, kw = _variant(case["variant"])
    r = load(d, case["text"], deckw=kw or None)
    if r[2] is not None:
        return (r[2], r[3])
    return None


def shrink(case, still_fails):
    text = case["text"]
    if len(text) > 3000:
        return case
    kept = shrink_seq(text, lambda t: still_fails(
        dict(variant=case["variant"], text=t)))
    return dict(variant=case["variant"], text=kept)
