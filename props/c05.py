"""C05 - ill-formed text is rejected, never silently truncated.

Domain : well-formed token lists (vlib.gen_text) x 1-3 token-level faults {delete,
         duplicate, swap adjacent, replace by a vocabulary token, truncate at a
         token, truncate inside a quoted string / units expression} x six parser
         variants; rendered with single blanks so tokens cannot merge.
Oracle : vlib.refread.recognise - an independent recursive-descent recogniser
         written from the specifications' BNF (plus the default loader's single
         documented tolerance, a missing value after '=').
         ill-formed before END/EOF  -> the loader must raise LexerError/ParseError;
                                       returning a module is the violation.
         well-formed                -> if the loader returns, it must return exactly
                                       the recogniser's tree.
"""
import itertools

from hypothesis import given, seed as hseed, settings, HealthCheck, Phase
from hypothesis import strategies as st

from vlib import gen_text as gt
from vlib import normalise as nm
from vlib import refread
from vlib.budget import BudgetExceeded
from vlib.dialects import budget_parser, PARSERS
from vlib.shrink import shrink_seq

ID = "C05"
LEVEL = "fault_enumeration"
BUDGET = {"quick": 300, "thorough": 1200}
RULE = (
    "case = (parser variant, generated well-formed token list, 1-3 token-level "
    "faults from {delete, duplicate, swap, replace-by-vocabulary-token, truncate, "
    "truncate-inside-quoted/units, bad character, nested units delimiter, units "
    "that lost their '>'}); every single fault at every position of three "
    "hand-written base documents x 6 variants; every token sequence of length <= 4 "
    "(quick; 5 for the default loader) / 5 (thorough) over a 14-token vocabulary. Non-trivial = the faulted list is rejected by the "
    "reference recogniser (ill-formed before END/EOF); distinct by (dialect, text). "
    "Cases the specifications do not settle (empty block, block names differing "
    "only in case, NULL/TRUE/FALSE as a name, set containing a sequence, empty ODL "
    "sequence) are skipped and counted."
)
ASSUMPTIONS = [
    "vlib/refread.py implements the BNF of spec/*.txt; it is validated on every "
    "un-faulted document (must accept and reproduce the generator's tree)",
    "a loader raising on a faulted-but-well-formed text is not a C05 violation "
    "(acceptance of well-formed text is C03); such cases are only counted",
    "foreign exception types and non-termination are C06's subject and only "
    "counted here",
]

FAMILY = {"PVL": "strict", "ODL": "strict", "PDS3": "strict", "ISIS": "strict",
          "ISISv": "omni", "default": "omni"}

PUNCT = [("=", "eq", None), (",", "comma", None), ("(", "open", None),
         (")", "close", None), ("{", "open", None), ("}", "close", None),
         (";", "semi", None)]


def apply_faults(tokens, faults):
    toks = [tuple(t) for t in tokens]
    for f in faults:
        kind = f[0]
        if not toks:
            break
        i = f[1] % len(toks)
        if kind == "delete":
            del toks[i]
        elif kind == "dup":
            toks.insert(i, toks[i])
        elif kind == "swap":
            if len(toks) > 1:
                j = (i + 1) % len(toks)
                toks[i], toks[j] = toks[j], toks[i]
        elif kind == "replace":
            vocab = PUNCT + sorted(set(toks), key=repr)
            toks[i] = vocab[f[2] % len(vocab)]
        elif kind == "truncate":
            toks = toks[:i]
        elif kind == "badchar":
            # a character outside every strict dialect's character set (or, for
            # f[2] odd, a control character) as a token of its own
            ch = "\u03b1" if f[2] % 2 == 0 else "\x01"
            toks.insert(i, (ch, "badchar", None))
        elif kind == "nul":
            # an ASCII NUL as a token of its own: outside the strict character sets,
            # and a reserved character (never a name or a value) in the default grammar
            toks.insert(i, ("\0", "badchar", None))
        elif kind == "badunits":
            toks.insert(i, ("<m<s>", "badunits", None))
        elif kind == "begin-form":
            # the first begin keyword at or after i changes between its plain and its
            # BEGIN_ form (same block for PVL/ODL/PDS3/default; the ISIS grammar does
            # not know the BEGIN_ forms)
            for j in list(range(i, len(toks))) + list(range(0, i)):
                fold = toks[j][0].casefold()
                if toks[j][1] == "word" and fold in ("group", "object", "begin_group",
                                                     "begin_object"):
                    new = toks[j][0][6:] if fold.startswith("begin_") else \
                        "BEGIN_" + toks[j][0]
                    toks[j] = (new, "word", None)
                    break
        elif kind == "double-open":
            # the first units expression at or after i gets its opening delimiter twice
            # ('<<m>'): a units delimiter is no units character
            for j in list(range(i, len(toks))) + list(range(0, i)):
                if toks[j][1] == "units":
                    toks[j] = ("<" + toks[j][0], "badunits", None)
                    break
        elif kind == "wrong-end":
            # the first end keyword at or after i becomes the one of the other block kind
            for j in list(range(i, len(toks))) + list(range(0, i)):
                fold = toks[j][0].casefold()
                if toks[j][1] == "word" and fold in ("end_group", "end_object"):
                    other = "END_OBJECT" if fold == "end_group" else "END_GROUP"
                    toks[j] = (other if toks[j][0].isupper() else other.title(), "word",
                               None)
                    break
        elif kind == "badword":
            # the first bare word at or after i gets a comment delimiter glued to its
            # end ('foo*/'): no dialect lets an unquoted lexeme contain one
            for j in list(range(i, len(toks))) + list(range(0, i)):
                if toks[j][1] == "word" and "/" not in toks[j][0]:
                    toks[j] = (toks[j][0] + "*/", "badword", None)
                    break
        elif kind == "unclose-quote":
            # a quoted string loses its closing quote and the text goes on; only when
            # that quote character does not occur anywhere later (then the string
            # runs to the end of the text, whatever the text ends in)
            for j in list(range(i, len(toks))) + list(range(0, i)):
                if toks[j][1] == "quoted" and len(toks[j][0]) >= 2:
                    q = toks[j][0][0]
                    if q in toks[j][0][1:-1]:
                        continue
                    if any(q in t[0] for t in toks[j + 1:]):
                        continue
                    toks[j] = (toks[j][0][:-1], "broken", None)
                    break
        elif kind == "unclose":
            # the first units expression at or after i loses its '>' and the text
            # goes on: whatever follows, up to the next '>', is swallowed by it
            for j in list(range(i, len(toks))) + list(range(0, i)):
                if toks[j][1] == "units" and ">" not in toks[j][0][:-1]:
                    toks[j] = (toks[j][0][:-1], "badunits", None)
                    break
        elif kind == "open-comment":
            # a comment is opened at i and never closed: it runs to the end of the
            # text (which then ends in a line end or not, f[2])
            rest = "/* note\n" + render(toks[i:]) + ("\n", "", " \n", "\r\n")[f[2] % 4]
            if "*/" not in rest:
                toks = toks[:i] + [(rest, "broken", None)]
        elif kind == "cut":
            # truncate inside the first quoted/units token at or after i
            for j in list(range(i, len(toks))) + list(range(0, i)):
                if toks[j][1] in ("quoted", "units") and len(toks[j][0]) >= 2:
                    text = toks[j][0]
                    cutat = 1 + (f[2] % (len(text) - 1))
                    piece = text[:cutat]
                    q = text[0]
                    if toks[j][1] == "quoted" and q in piece[1:]:
                        break
                    toks = toks[:j] + [(piece, "broken", None)]
                    break
    return toks


def render(toks):
    return " ".join(t[0] for t in toks)


def fault_strategy():
    idx = st.integers(0, 400)
    one = st.one_of(
        st.tuples(st.just("delete"), idx),
        st.tuples(st.just("dup"), idx),
        st.tuples(st.just("swap"), idx),
        st.tuples(st.just("replace"), idx, idx),
        st.tuples(st.just("replace"), idx, st.integers(0, 6)),
        st.tuples(st.just("truncate"), idx),
        st.tuples(st.just("cut"), idx, idx),
        st.tuples(st.just("badchar"), idx, idx),
        st.tuples(st.just("nul"), idx),
        st.tuples(st.just("badunits"), idx),
        st.tuples(st.just("unclose"), idx),
        st.tuples(st.just("unclose"), idx),
        st.tuples(st.just("unclose-quote"), idx),
        st.tuples(st.just("badword"), idx),
        st.tuples(st.just("begin-form"), idx),
        st.tuples(st.just("wrong-end"), idx),
        st.tuples(st.just("double-open"), idx),
        st.tuples(st.just("open-comment"), idx, idx),
    )
    return st.lists(one, min_size=1, max_size=3)


@st.composite
def cases(draw, d):
    doc = draw(gt.documents(d, min_statements=1))
    faults = draw(fault_strategy())
    return dict(dialect=d, tokens=doc["tokens"], faults=faults,
                expected=doc["expected"])


CLASS_CFGS = {
    # group_class / object_class substitutes that are the same class or subclasses of
    # each other (a caller who wants plain dict-likes everywhere): what is well-formed
    # does not depend on the classes the blocks are built with
    "same-omd": lambda pc: dict(group_class=pc.OrderedMultiDict,
                                object_class=pc.OrderedMultiDict),
    "grp-is-obj": lambda pc: dict(group_class=pc.PVLObject),
    "obj-is-grp": lambda pc: dict(object_class=pc.PVLGroup),
    "both-agg": lambda pc: dict(group_class=pc.PVLAggregation,
                                object_class=pc.PVLAggregation),
}


STREAM_PREFIX = [("zz", "word", None), ("=", "eq", None),
                 ("a\u00e9b", "word", ("str", "a\u00e9b"))]


def _stream_data(text, via):
    """The text (which begins with the assignment STREAM_PREFIX) behind 8 kB of comment,
    so that the two-byte character of that assignment's value lies across byte 8192 -
    the size of the blocks a file is read in - or just before it.  (The character stands
    in a bare word: a text that ended just before it would be a label of its own.)"""
    delta = {"stream": -1, "stream-before": -2, "stream+data": -1}[via]
    assert text.startswith("zz = a\u00e9b")
    head = "/* "
    tailc = " */ "
    fill = 8192 + delta - len((head + tailc + "zz = a").encode())
    data = (head + "p" * fill + tailc + text).encode("utf-8")
    assert data[8192 + delta:8192 + delta + 2] == "\u00e9".encode()
    if via == "stream+data":
        data += b"\n\xff\xfe\x00"
    return data


def lay_out(toks, d, seed):
    """The tokens with generated white space and comments between them (C04's layouts)
    instead of single blanks; None when a token runs to the end of the text (then what
    stands between the tokens would become part of it)."""
    import random as _random
    if any(t[1] == "broken" for t in toks):
        return None
    if isinstance(seed, (list, tuple)):
        # ("cycle", k): fixed separators in turn, so that every token is once followed
        # by each of them
        from vlib.dialects import HASH_COMMENT
        cyc = [" ", " # --\n", "\n", " /* c */ ", " # end of the note -----\n", "\r\n  "]
        if d not in HASH_COMMENT:
            cyc = [c if "#" not in c else " /* -- */\n" for c in cyc]
        k = seed[1]
        return "".join(t[0] + cyc[(i + k) % len(cyc)] for i, t in enumerate(toks))
    rng = _random.Random(seed)
    out = []
    for i, t in enumerate(toks):
        if i:
            out.append(gt._sep(rng, d, True, "full"))
        out.append(t[0])
    out.append(rng.choice(["", "\n", " ", "\r\n"]))
    return "".join(out)


def judge(d, toks, classes=None, via=None, layout=None):
    """Returns (verdict, signature|None, detail) for one faulted token list.
    *classes*: a key of CLASS_CFGS - only 'ill-formed must be rejected' is judged then
    (the tree comparison tells groups from objects by their class)."""
    text = render(toks)
    if layout is not None:
        text = lay_out(toks, d, layout)
        if text is None:
            return ("ambiguous", None, "no layout for a token that runs to the end")
    rec = refread.recognise(toks, d)
    if rec[0] == "ambiguous":
        return ("ambiguous", None, rec[1])
    if classes is not None:
        import pvl.collections as pc
        p = budget_parser(d, **CLASS_CFGS[classes](pc))
    else:
        p = budget_parser(d)
    try:
        if via:
            import io
            import pvl
            m = pvl.load(io.BytesIO(_stream_data(text, via)), parser=p)
        else:
            m = p.parse(text)
        outcome = "module"
    except BudgetExceeded:
        return ("foreign", None, "spins")
    except Exception as e:
        name = type(e).__name__
        if name not in ("LexerError", "ParseError"):
            return ("foreign", None, name)
        outcome = "raised"
    fam = FAMILY[d]
    if rec[0] == "ill":
        if outcome == "raised":
            return ("ill-rejected", None, rec[1])
        got = nm.canon(m)
        return ("fail", f"C05/{fam}{'/via-' + via if via else ''}/accepted/{rec[1]}",
                f"{d}{' with container classes ' + classes if classes else ''}"
                f"{' handed over as a binary stream (' + via + ')' if via else ''}: "
                f"ill-formed ({rec[1]} at token {rec[2]}) but a module was "
                f"returned: {got!r}; text={text!r}")
    # well-formed
    if outcome == "raised":
        return ("wellformed-rejected", None, "")
    if classes is not None or isinstance(layout, (list, tuple)):
        # (the hand-written documents of commented_faults carry no expected values: only
        # 'ill-formed must be rejected' is judged there)
        return ("wellformed-ok", None, "")
    got = nm.canon(m)
    dd = nm.diff(rec[1], got)
    if dd is not None:
        return ("fail", f"C05/{fam}{'/via-' + via if via else ''}/altered",
                f"{d}: well-formed text, loader returned a different tree at "
                f"{dd[0]}: expected {dd[1]!r} got {dd[2]!r}; text={text!r}")
    return ("wellformed-ok", None, "")


def validate_recogniser(d, tokens, expected):
    rec = refread.recognise(tokens, d)
    if rec[0] == "ambiguous":
        return None
    if rec[0] != "ok":
        return f"recogniser rejects an un-faulted document: {rec}"
    if nm.diff(expected, rec[1]) is not None:
        return f"recogniser tree differs on an un-faulted document: {nm.diff(expected, rec[1])}"
    return None


def random_cases(acc, d, n, seed):
    @hseed(seed)
    @settings(max_examples=n, database=None, deadline=None,
              phases=[Phase.generate],
              suppress_health_check=list(HealthCheck))
    @given(cases(d))
    def body(case):
        if acc.expired():
            acc.notes["budget_exhausted"] = 1
            return
        why = validate_recogniser(d, case["tokens"], case["expected"])
        if why is not None:
            raise RuntimeError("harness: " + why + " tokens=" + repr(case["tokens"]))
        toks = apply_faults(case["tokens"], case["faults"])
        v, sig, detail = judge(d, toks)
        acc.event(f"{FAMILY[d]}:{v}")
        for f in case["faults"]:
            acc.event("fault:" + f[0])
        if v == "ambiguous":
            acc.event("skipped:" + detail)
            return
        text = render(toks)
        nt = v in ("ill-rejected", "fail") and sig != f"C05/{FAMILY[d]}/altered"
        if v == "ill-rejected":
            acc.event("illclass:" + detail.split(":")[0])
        acc.case(key=d + "\0" + text, nontrivial=nt,
                 sample={"dialect": d, "text": text[:200], "verdict": v,
                         "reason": detail[:80]} if nt else None)
        if v == "fail":
            acc.fail(sig, dict(dialect=d, tokens=[list(t) for t in toks]), detail)
        # the same faulted tokens with generated white space and comments between them
        import zlib
        lseed = zlib.crc32(text.encode("utf-8", "surrogatepass"))
        if lseed % 2:
            return
        v2, sig2, detail2 = judge(d, toks, layout=lseed)
        acc.event(f"layout:{v2}")
        if v2 == "fail":
            acc.fail(sig2.replace("C05/", "C05/laid-out/", 1),
                     dict(dialect=d, tokens=[list(t) for t in toks], layout=lseed),
                     detail2)

    body()


# ---- exhaustive token sequences over a small vocabulary (all dialects share it)
VOCAB = [("a", "word", None), ("=", "eq", None), ("1", "word", ("int", 1)),
         ('"s"', "quoted", ("str", "s")), ("GROUP", "word", None),
         ("END_GROUP", "word", None), ("END", "end", None), ("(", "open", None),
         (")", "close", None), ("{", "open", None), ("}", "close", None),
         (",", "comma", None), (";", "semi", None), ("<m>", "units", "m")]


def exhaustive_sequences(acc, d, first, length):
    for tail in itertools.product(range(len(VOCAB)), repeat=length - 1):
        if acc.expired():
            acc.notes["budget_exhausted"] = 1
            return
        toks = [VOCAB[first]] + [VOCAB[i] for i in tail]
        v, sig, detail = judge(d, toks)
        acc.event(f"{FAMILY[d]}:{v}")
        if v == "ambiguous":
            continue
        text = render(toks)
        nt = v in ("ill-rejected", "fail")
        acc.case(key=d + "\0" + text, nontrivial=nt,
                 sample={"dialect": d, "text": text, "verdict": v} if nt else None)
        if v == "fail":
            acc.fail(sig, dict(dialect=d, tokens=[list(t) for t in toks]), detail)


def _base_documents():
    T = gt.T
    num = lambda t: T(t, "word", ("float", float(t).hex()) if "." in t else ("int", int(t)))
    s = lambda t: T(t, "word", ("str", t))
    q = lambda t: T('"' + t + '"', "quoted", ("str", t))
    u = lambda t: T("<" + t + ">", "units", t)
    EQ, SC = T("=", "eq"), T(";", "semi")
    O, C, SO, SC_, CM = T("(", "open"), T(")", "close"), T("{", "open"), T("}", "close"), \
        T(",", "comma")
    doc1 = [T("PDS_VERSION_ID"), EQ, s("PDS3"), SC, T("EXPOSURE_DURATION"), EQ, num("1.5"),
            u("s"), T("FOCAL_LENGTH"), EQ, num("352"), u("mm"), T("NOTE"), EQ,
            q("a text string"), T("OBJECT"), EQ, T("IMAGE"), T("LINES"), EQ, num("10"),
            T("LINE_SAMPLES"), EQ, num("20"), T("END_OBJECT"), EQ, T("IMAGE"),
            T("END", "end")]
    doc2 = [T("GROUP"), EQ, T("outer"), T("A"), EQ, O, num("1"), CM, num("2.5"), u("m"),
            CM, T("'sym'", "quoted", ("str", "sym")), C, T("OBJECT"), EQ, T("inner"),
            T("B"), EQ, SO, s("x"), CM, s("y"), SC_, T("C"), EQ,
            T("2#101#", "word", ("int", 5)), T("END_OBJECT"), T("D"), EQ, q("q"), SC,
            T("END_GROUP"), EQ, T("outer"), T("E"), EQ, num("3"), u("km"),
            T("END", "end")]
    doc3 = [T("a"), EQ, num("1"), T("b"), EQ, O, O, num("1"), CM, num("2"), C, CM, O,
            num("3"), CM, num("4"), C, C, T("c"), EQ, num("5"), u("m"), T("d"), EQ,
            num("6"), u("s")]
    doc4 = [T("NOTE"), EQ, q("Calibrated image"), T("LINES"), EQ, num("1024"),
            T("TARGET_NAME"), EQ, T("'MARS'", "quoted", ("str", "MARS"))]
    doc5 = [T("A"), EQ, T("'x y'", "quoted", ("str", "x y")), T("B"), EQ, O, num("1"), CM,
            q("z"), C]
    return [doc1, doc2, doc3, doc4, doc5]


def single_faults(acc, d):
    """Every single fault at every position of three hand-written base documents."""
    for base in _base_documents():
        why = refread.recognise(base, d)
        if why[0] != "ok":
            raise RuntimeError(f"harness: base document not accepted: {why}")
        n = len(base)
        faults = []
        for i in range(n):
            faults += [("delete", i), ("dup", i), ("swap", i), ("truncate", i),
                       ("cut", i, 1), ("cut", i, 2), ("badchar", i, 0),
                       ("badchar", i, 1), ("badunits", i), ("unclose", i),
                       ("unclose-quote", i), ("badword", i), ("begin-form", i),
                       ("nul", i), ("wrong-end", i), ("double-open", i),
                       ("open-comment", i, 0), ("open-comment", i, 1),
                       ("open-comment", i, 2), ("open-comment", i, 3)]
            faults += [("replace", i, k) for k in range(len(PUNCT) + 4)]
        for f in faults:
            toks = apply_faults(base, [f])
            structural = f[0] in ("replace", "swap", "delete", "dup", "begin-form")
            for classes in [None] + (list(CLASS_CFGS) if f[0] == "wrong-end" else
                                     list(CLASS_CFGS)[:2] if structural else []):
                v, sig, detail = judge(d, toks, classes)
                acc.event(f"single:{v}" + (":classes" if classes else ""))
                if v == "ambiguous":
                    continue
                text = render(toks)
                nt = v in ("ill-rejected", "fail")
                acc.case(key=d + "\0" + str(classes) + "\0" + text, nontrivial=nt)
                if v == "fail":
                    case = dict(dialect=d, tokens=[list(t) for t in toks])
                    if classes:
                        case["classes"] = classes
                    acc.fail(sig, case, detail)


def stream_faults(acc, d):
    """The single faults again, the text arriving through pvl.load() as a binary stream
    (what reading a product file amounts to) behind 8 kB of comment."""
    for base in _base_documents():
        n = len(base)
        faults = []
        for i in range(n):
            faults += [("delete", i), ("truncate", i), ("badunits", i), ("unclose", i),
                       ("unclose-quote", i), ("wrong-end", i), ("open-comment", i, 0),
                       ("replace", i, i % len(PUNCT))]
        for f in faults:
            toks = [tuple(t) for t in STREAM_PREFIX] + apply_faults(base, [f])
            for via in ("stream", "stream+data", "stream-before"):
                if acc.expired():
                    acc.notes["budget_exhausted"] = 1
                    return
                v, sig, detail = judge(d, toks, via=via)
                acc.event(f"stream:{v}")
                if v == "ambiguous":
                    continue
                acc.case(key=d + "\0" + via + "\0" + render(toks),
                         nontrivial=v in ("ill-rejected", "fail"))
                if v == "fail":
                    acc.fail(sig, dict(dialect=d, tokens=[list(t) for t in toks],
                                       via=via), detail)


def commented_faults(acc, d):
    """Single faults on documents with multi-line strings, every token followed in turn
    by a blank, a line end, a comment, a '#' comment that ends in dashes."""
    T = gt.T
    EQ = T("=", "eq")
    docs = [
        [T("note"), EQ, T('"first line\n second line"', "quoted", ("str", "x")),
         T("b"), EQ, T("(", "open"), T("1", "word", ("int", 1)), T(",", "comma"),
         T("2", "word", ("int", 2)), T(")", "close"), T("c"), EQ,
         T("3", "word", ("int", 3)), T("END", "end")],
        [T("GROUP"), EQ, T("g"), T("s"), EQ, T("'a\nb'", "quoted", ("str", "x")),
         T("u"), EQ, T("5", "word", ("int", 5)), T("<m>", "units", "m"),
         T("END_GROUP"), T("t"), EQ, T('"one\n two\n three"', "quoted", ("str", "x"))],
    ]
    for base in docs:
        n = len(base)
        faults = []
        for i in range(n):
            faults += [("delete", i), ("dup", i), ("swap", i), ("badunits", i),
                       ("badword", i), ("wrong-end", i)]
            faults += [("replace", i, k) for k in range(len(PUNCT))]
        for f in faults:
            toks = apply_faults(base, [f])
            for k in range(6):
                if acc.expired():
                    acc.notes["budget_exhausted"] = 1
                    return
                v, sig, detail = judge(d, toks, layout=("cycle", k))
                acc.event(f"commented:{v}")
                if v == "ambiguous":
                    continue
                acc.case(key=d + "\0cycle" + str(k) + render(toks),
                         nontrivial=v in ("ill-rejected", "fail"))
                if v == "fail":
                    acc.fail(sig.replace("C05/", "C05/laid-out/", 1),
                             dict(dialect=d, tokens=[list(t) for t in toks],
                                  layout=["cycle", k]), detail)


def _small_documents():
    T = gt.T
    EQ, SC = T("=", "eq"), T(";", "semi")
    one = T("1", "word", ("int", 1))
    w = lambda t: T(t, "word", ("str", t))
    return [
        [T("x"), EQ, one, T("y"), EQ, w("z"), SC, T("w"), EQ, one],
        [T("GROUP"), EQ, T("g"), T("a"), EQ, w("b"), T("c"), EQ, one, T("END_GROUP"),
         T("d"), EQ, one],
        [T("a"), EQ, T("(", "open"), w("b"), T(",", "comma"), one, T("<m>", "units", "m"),
         T(")", "close"), T("c"), EQ, T('"s"', "quoted", ("str", "s"))],
    ]


def _fault_menu(n):
    faults = []
    for i in range(n):
        faults += [("delete", i), ("dup", i), ("swap", i), ("truncate", i),
                   ("badchar", i, 1), ("badunits", i), ("unclose", i),
                   ("unclose-quote", i), ("badword", i), ("begin-form", i), ("nul", i),
                   ("open-comment", i, 0)]
        faults += [("replace", i, k) for k in range(len(PUNCT))]
    return faults


def double_faults(acc, d, doc):
    """Every ordered pair of single faults on a small document (the repair paths of
    the permissive loader need two specific faults: 'x = y = z ; = 1')."""
    base = _small_documents()[doc]
    if refread.recognise(base, d)[0] != "ok":
        raise RuntimeError("harness: small base document not accepted")
    seen = set()
    for f1 in _fault_menu(len(base)):
        if acc.expired():
            acc.notes["budget_exhausted"] = 1
            return
        once = apply_faults(base, [f1])
        for f2 in _fault_menu(len(once)):
            toks = apply_faults(once, [f2])
            text = render(toks)
            if text in seen:
                continue
            seen.add(text)
            v, sig, detail = judge(d, toks)
            acc.event(f"double:{v}")
            if v == "ambiguous":
                continue
            nt = v in ("ill-rejected", "fail")
            acc.case(key=d + "\0" + text, nontrivial=nt)
            if v == "fail":
                acc.fail(sig, dict(dialect=d, tokens=[list(t) for t in toks]), detail)


def shards(tier, seed):
    n = 260 if tier == "quick" else 7000
    out = [("random_cases", dict(d=PARSERS[j % 6], n=n, seed=seed * 1000 + j))
           for j in range(18)]
    out += [("single_faults", dict(d=d)) for d in PARSERS]
    out += [("stream_faults", dict(d=d)) for d in ("PVL", "ISIS", "ISISv", "default")]
    out += [("commented_faults", dict(d=d)) for d in PARSERS]
    for d in ("default", "ISISv", "PVL") if tier == "quick" else PARSERS:
        out += [("double_faults", dict(d=d, doc=k))
                for k in range(len(_small_documents()))]
    maxlen = 4 if tier == "quick" else 5
    for d in ("PVL", "default") if tier == "quick" else PARSERS:
        for length in range(1, maxlen + 1):
            for first in range(len(VOCAB)):
                out.append(("exhaustive_sequences",
                            dict(d=d, first=first, length=length)))
    if tier == "quick":
        # the permissive loader's repair paths need five tokens ('a = a ; =')
        for first in range(len(VOCAB)):
            out.append(("exhaustive_sequences",
                        dict(d="default", first=first, length=5)))
    return out


def EXHAUSTIVE(tier):
    return False


def _tok(t):
    val = t[2]

    def tup(x):
        if isinstance(x, list):
            if len(x) == 2 and x[0] == "set":
                return ("set", frozenset(tup(i) for i in x[1]))
            return tuple(tup(i) for i in x)
        return x
    return (t[0], t[1], tup(val))


def replay(case):
    toks = [_tok(t) for t in case["tokens"]]
    v, sig, detail = judge(case["dialect"], toks, case.get("classes"), case.get("via"),
                           case.get("layout"))
    if v == "fail":
        if case.get("layout") is not None:
            sig = sig.replace("C05/", "C05/laid-out/", 1)
        return (sig, detail)
    return None


def shrink(case, still_fails):
    extra = {k: case[k] for k in ("classes", "via", "layout") if case.get(k) is not None}
    toks = shrink_seq(case["tokens"], lambda ts: still_fails(
        dict(dialect=case["dialect"], tokens=ts, **extra)))
    return dict(dialect=case["dialect"], tokens=toks, **extra)
