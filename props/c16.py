"""C16 - parser, decoder and encoder instances carry no state between calls.

Domain : histories of 2-12 calls issued to long-lived instances: the six parser
         variants, four encoders, five decoders, and the module-level instances of
         pvl_validate.dialects / pvl_translate.formats (shared by every history of
         the process).  Inputs: well-formed texts, texts with empty values, texts
         failing in the lexer mid-document, failing in the parser, with junk after
         END, modules the encoder accepts / refuses, group-only modules.
Oracle : differential - after each call (result, module.errors, exception type and
         message) of the long-lived instance == that of a fresh instance of the same
         construction on the same input alone.
"""
from hypothesis import given, seed as hseed, settings, HealthCheck, Phase
from hypothesis import strategies as st

import pvl
import pvl.pvl_validate as pv
import pvl.pvl_translate as pt
from pvl.grammar import (PVLGrammar, ODLGrammar, PDSGrammar, ISISGrammar,
                         OmniGrammar)
from pvl.decoder import PVLDecoder, ODLDecoder, PDSLabelDecoder, OmniDecoder
from pvl.parser import PVLParser, ODLParser, OmniParser
from pvl.encoder import PVLEncoder, ODLEncoder, PDSLabelEncoder, ISISEncoder

from props import c05, c08, c13, c17
from vlib import gen_text as gt
from vlib import gen_values as gv
from vlib import normalise as nm
from vlib.budget import BudgetExceeded, counting_lexer
from vlib.dialects import make_parser, make_encoder, grammar_decoder, PARSERS, ENCODERS
from vlib.shrink import shrink_seq

ID = "C16"
LEVEL = "exploration"
BUDGET = {"quick": 300, "thorough": 1200}
RULE = (
    "case = history of 2-12 calls (parse / encode / decode_simple_value / "
    "pvl_validate dialect parse+encode / pvl_translate encoder) with generated "
    "inputs; every call is repeated on a fresh instance; plus, per parser variant and "
    "encoder, one instance soaked with 400 (quick) / 5000 (thorough) mostly failing "
    "calls. Non-trivial = a failing or "
    "repair-producing call precedes another call on the same instance; distinct by "
    "history."
)
ASSUMPTIONS = [
    "exception messages are compared textually (they are functions of the input)",
    "pvl_validate / pvl_translate are re-imported at the start of every history, so "
    "their module-level instances live exactly as long as the history (as they do "
    "for the files of one CLI run) and every history replays on its own",
    "object addresses (0x...) inside exception messages are masked",
]

FIXED_TEXTS = [
    "a = 1\nb = 2\nEND\n",
    "a =\nb = 2\nc =\nEND\n",
    "\n\n\nx =\n",
    "a = 1\nb = \x01\nc = 3\n",
    "a = 1\nb = (1, 2\n",
    "a = 1 b END",
    "GROUP = g\n a = 1\nEND\n",
    "a = 1\nEND\n = = garbage (",
    "a = \"two-\n  lines\"\n\n\nb =\n",
    "/* only a comment */",
    "",
    "a = 1 = 2",
    "a =\nb = 2\nc = (1, 2\n",
    "x = \"dash-\n  cont\"\n\nq =\nGROUP = g\n y = 1\nEND\n",
    "\n\nk =\nj = \x01\n",
    "a = word\nb = foo*/\n",
    "a = /*never_closed",
    "a = b#c\n",
    # line ends that are bare carriage returns
    "a = 1\rb = 2\rEND\r", "a =\rb = 2\r", "a = \"p-\r  q\"\rb =\r",
    # text that ends (or fails) deep inside nested sequences, sets and blocks, and a
    # deep well-formed one: whatever a parser counts on the way down has to be back
    # at zero however the parse ends
    "a = " + "(" * 120,
    "a = " + "{(" * 45 + "1, 2",
    "a = " + "(" * 40 + "1" + ")" * 40 + "\nEND\n",
    "".join(f"GROUP = g{i}\n" for i in range(70)) + "x = (1, 2\n",
]

VALIDATE_FRESH = {
    "PDS3": lambda: (lambda g: (lambda d: (ODLParser(g, d), PDSLabelEncoder(g, d)))(PDSLabelDecoder(g)))(PDSGrammar()),
    "ODL": lambda: (lambda g: (lambda d: (ODLParser(g, d), ODLEncoder(g, d)))(ODLDecoder(g)))(ODLGrammar()),
    "PVL": lambda: (lambda g: (lambda d: (PVLParser(g, d), PVLEncoder(g, d)))(PVLDecoder(g)))(PVLGrammar()),
    "ISIS": lambda: (lambda g: (lambda d: (OmniParser(g, d), ISISEncoder(g, d)))(OmniDecoder(g)))(ISISGrammar()),
    "Omni": lambda: (lambda g: (lambda d: (OmniParser(g, d), PVLEncoder(g, d)))(OmniDecoder(g)))(OmniGrammar()),
}
TRANSLATE_FRESH = {"PDS3": PDSLabelEncoder, "ODL": ODLEncoder, "ISIS": ISISEncoder,
                   "PVL": PVLEncoder}

_LONG = {}


def long_lived():
    """One set of long-lived instances per worker process."""
    if not _LONG:
        for v in PARSERS:
            _LONG[("parser", v)] = make_parser(v, lexer_fn=counting_lexer())
        for e in ENCODERS:
            _LONG[("encoder", e)] = make_encoder(e)
        for v in ("PVL", "ODL", "PDS3", "ISIS", "default"):
            _LONG[("decoder", v)] = grammar_decoder(v)[1]
    return _LONG


def outcome_parse(parser, text):
    try:
        m = parser.parse(text)
        return ("module", nm.canon(m), list(m.errors))
    except BudgetExceeded:
        return ("spins",)
    except Exception as e:
        return ("raised", type(e).__name__, str(e))


_SHARED = {}


def build_shared(spec):
    """Builds the module of *spec*; within one history a top-level block whose spec
    was built before is the *same object* again (applications assemble several
    labels from the same group objects)."""
    from pvl.collections import PVLModule
    items = []
    for k, v in spec:
        if isinstance(v, dict) and ("grp" in v or "obj" in v):
            key = repr(v)
            if key not in _SHARED:
                _SHARED[key] = gv.build_value(v)
            items.append((k, _SHARED[key]))
        else:
            items.append((k, gv.build_value(v)))
    return PVLModule(items)


def _other_dialect(v):
    return "ODL" if v in ("default", "ISISv", "ISIS", "PVL") else "ISIS"


def outcome_loads_kw(parser, v, text):
    """pvl.loads() with the instance AND a grammar / decoder of another dialect (the
    entry point decides what it does with them; the instance must not remember)."""
    g, d = grammar_decoder(_other_dialect(v))
    try:
        m = pvl.loads(text, parser=parser, grammar=g, decoder=d)
        return ("module", nm.canon(m), list(m.errors))
    except BudgetExceeded:
        return ("spins",)
    except Exception as e:
        return ("raised", type(e).__name__, str(e))


def outcome_dumps_kw(encoder, e, spec):
    g, d = grammar_decoder(_other_dialect(e))
    try:
        return ("text", pvl.dumps(gv.build_module(spec), encoder=encoder, grammar=g,
                                  decoder=d))
    except Exception as ex:
        return ("raised", type(ex).__name__, str(ex))


def build_new(spec):
    import pvl.collections as pc
    return gv.build_module(spec, pc.PVLModuleNew, pc.PVLGroupNew, pc.PVLObjectNew)


def outcome_encode(encoder, spec, module=None):
    try:
        return ("text", encoder.encode(gv.build_module(spec) if module is None
                                       else module))
    except Exception as e:
        return ("raised", type(e).__name__, str(e))


def outcome_decode(decoder, tok):
    try:
        v = decoder.decode_simple_value(tok)
        return ("value", nm.canon(v), type(v).__name__)
    except Exception as e:
        return ("raised", type(e).__name__, str(e))


import importlib
import re

_ADDR = re.compile(r"0x[0-9a-fA-F]+")


def _noaddr(outcome):
    """Object addresses in messages are not state."""
    return tuple(_ADDR.sub("0x", x) if isinstance(x, str) else x for x in outcome)


def alone(arg):
    """What a new instance gives for the input of *call* alone - evaluated (through
    vlib.zygote) in a process that has done nothing else with the library."""
    call, reg = arg
    kind = call[0]
    if kind in ("parse", "vparse"):
        p = make_parser(call[1], lexer_fn=counting_lexer()) if kind == "parse" \
            else VALIDATE_FRESH[call[1]]()[0]
        if kind == "vparse":
            p.lexer = counting_lexer()
        return _noaddr(outcome_parse(p, call[2]))
    if kind == "parse-kw":
        return _noaddr(outcome_loads_kw(make_parser(call[1], lexer_fn=counting_lexer()),
                                        call[1], call[2]))
    if kind == "decode":
        return _noaddr(outcome_decode(grammar_decoder(call[1])[1], call[2]))
    if kind == "vencode":
        return _noaddr(outcome_encode(VALIDATE_FRESH[call[1]]()[1], call[2]))
    if kind == "tencode":
        return _noaddr(outcome_encode(TRANSLATE_FRESH[call[1]](), call[2]))
    fresh = make_encoder(call[1])
    if reg:
        fresh.add_quantity_cls(c13.Metres, "value", "units")
    if kind == "encode":
        return _noaddr(outcome_encode(fresh, call[2]))
    if kind == "encode-new":
        return _noaddr(outcome_encode(fresh, call[2], build_new(call[2])))
    if kind == "encode-kw":
        return _noaddr(outcome_dumps_kw(fresh, call[1], call[2]))
    if kind == "encode-shared":
        return _noaddr(outcome_encode(fresh, call[2], build_shared(call[2])))
    if kind == "encode-q":
        m1 = gv.build_module(call[2])
        m1.append("QUANTITY_LIKE", c13.Metres(2.5, "km"))
        return _noaddr(outcome_encode(fresh, call[2], m1))
    raise AssertionError(call)


def run_history(history, stop_at_first=False, zyg=None):
    """None or (signature, detail).  Every history starts from new long-lived
    instances (and freshly imported CLI modules), so that a history is a complete,
    replayable reproduction.  With *zyg* the result of the new instance comes from a
    process that has done nothing else (see alone())."""
    _LONG.clear()
    _SHARED.clear()
    importlib.reload(pv)
    importlib.reload(pt)
    inst = long_lived()
    registered = set()
    for step, call in enumerate(history):
        kind = call[0]
        if kind == "parse":
            _, v, text = call
            a = outcome_parse(inst[("parser", v)], text)
            b = outcome_parse(make_parser(v, lexer_fn=counting_lexer()), text)
            who = f"parser:{v}"
        elif kind == "encode":
            _, e, spec = call
            fresh = make_encoder(e)
            if e in registered:
                fresh.add_quantity_cls(c13.Metres, "value", "units")
            a = outcome_encode(inst[("encoder", e)], spec)
            b = outcome_encode(fresh, spec)
            who = f"encoder:{e}"
        elif kind == "encode-shared":
            _, e, spec = call
            m = build_shared(spec)
            a = outcome_encode(inst[("encoder", e)], spec, m)
            b = outcome_encode(make_encoder(e), spec, m)
            who = f"encoder:{e}"
        elif kind == "parse-kw":
            _, v, text = call
            a = outcome_loads_kw(inst[("parser", v)], v, text)
            b = outcome_loads_kw(make_parser(v, lexer_fn=counting_lexer()), v, text)
            who = f"parser:{v}"
        elif kind == "encode-kw":
            _, e, spec = call
            fresh = make_encoder(e)
            if e in registered:
                fresh.add_quantity_cls(c13.Metres, "value", "units")
            a = outcome_dumps_kw(inst[("encoder", e)], e, spec)
            b = outcome_dumps_kw(fresh, e, spec)
            who = f"encoder:{e}"
        elif kind == "encode-new":
            # a module of the pvl.new container family (what pvl.new.load returns)
            _, e, spec = call
            fresh = make_encoder(e)
            if e in registered:
                fresh.add_quantity_cls(c13.Metres, "value", "units")
            a = outcome_encode(inst[("encoder", e)], spec, build_new(spec))
            b = outcome_encode(fresh, spec, build_new(spec))
            who = f"encoder:{e}"
        elif kind == "register":
            # a quantity class is registered on the long-lived encoder part-way through
            # its life; every fresh twin made afterwards gets the same registration
            _, e, _ = call
            inst[("encoder", e)].add_quantity_cls(c13.Metres, "value", "units")
            registered.add(e)
            continue
        elif kind == "encode-q":
            # a module that holds a value of that class (registered or not)
            _, e, spec = call
            m1 = gv.build_module(spec)
            m1.append("QUANTITY_LIKE", c13.Metres(2.5, "km"))
            fresh = make_encoder(e)
            if e in registered:
                fresh.add_quantity_cls(c13.Metres, "value", "units")
            a = outcome_encode(inst[("encoder", e)], spec, m1)
            b = outcome_encode(fresh, spec, m1)
            who = f"encoder:{e}"
        elif kind == "decode":
            _, v, tok = call
            a = outcome_decode(inst[("decoder", v)], tok)
            b = outcome_decode(grammar_decoder(v)[1], tok)
            who = f"decoder:{v}"
        elif kind == "vparse":
            _, dname, text = call
            lp = pv.dialects[dname]["parser"]
            lp.lexer = counting_lexer()          # budget guard only
            fp = VALIDATE_FRESH[dname]()[0]
            fp.lexer = counting_lexer()
            a = outcome_parse(lp, text)
            b = outcome_parse(fp, text)
            who = f"pvl_validate.dialects[{dname}].parser"
        elif kind == "vencode":
            _, dname, spec = call
            a = outcome_encode(pv.dialects[dname]["encoder"], spec)
            b = outcome_encode(VALIDATE_FRESH[dname]()[1], spec)
            who = f"pvl_validate.dialects[{dname}].encoder"
        elif kind == "tencode":
            _, fmt, spec = call
            a = outcome_encode(pt.formats[fmt].encoder, spec)
            b = outcome_encode(TRANSLATE_FRESH[fmt](), spec)
            who = f"pvl_translate.formats[{fmt}].encoder"
        else:
            raise AssertionError(call)
        a, b = _noaddr(a), _noaddr(b)
        if zyg is not None:
            b = zyg.run((tuple(call), call[1] in registered))
            who += " (new process)"
        if a != b:
            what = "result"
            if a[0] == "module" and b[0] == "module" and a[1] == b[1]:
                what = "errors-attribute"
            elif a[0] != b[0]:
                what = "outcome-kind"
            elif a[0] == "raised":
                what = "exception"
            return (f"C16/{who.split(':')[0].split('[')[0]}/{what}",
                    f"step {step} {who}: long-lived instance gave {a!r:.300}, a "
                    f"fresh instance gives {b!r:.300}; input={call[2]!r:.200}")
    return None


def texts():
    def faulted(d):
        return st.builds(
            lambda doc, faults: c05.render(c05.apply_faults(doc["tokens"], faults)),
            gt.documents(d, min_statements=1), c05.fault_strategy())

    gen = st.one_of(*[gt.documents(d, min_statements=1).map(gt.canonical_text)
                      for d in ("PVL", "ODL", "default")])
    gaps = c08.cases("default").map(lambda c: c["text"])
    # a repaired empty value first, then something that makes the load fail
    repaired_then_failing = st.tuples(
        st.sampled_from(["k =\n", "\n\nk =\nj = 1\n", "a =\nb =\n"]),
        st.sampled_from(["c = (1, 2\n", "GROUP = g\n d = 1\n", "e = \x01\n", "f = 1 = 2",
                         "g = {1\n", "END_GROUP\n", "h = \"open\n"])).map("".join)
    # two statements whose values are single lexemes of every class (bare words the
    # decoder takes or refuses, numbers, dates, quoted strings, keywords)
    lexemes = st.tuples(st.sampled_from(c17.CURATED), st.sampled_from(c17.CURATED)).map(
        lambda t: f"a = {t[0]}\nb = {t[1]}\n")
    return st.one_of(st.sampled_from(FIXED_TEXTS), st.sampled_from(FIXED_TEXTS), gen,
                     gaps, faulted("PVL"), faulted("default"), repaired_then_failing,
                     lexemes)


def small_specs(enc):
    return st.sampled_from([[], [["A", 1]], [["g", {"grp": [["x", 1]]}]],
                            [["A", {"q": [1, "m"]}], ["B", "s"]]])


def specs(enc):
    return st.one_of(gv.modules(enc), c13.block_heavy(enc))


def calls():
    t = texts()
    return st.one_of(
        st.tuples(st.just("parse"), st.sampled_from(PARSERS), t),
        st.tuples(st.just("parse"), st.sampled_from(["default", "ISISv"]), t),
        st.tuples(st.just("vparse"), st.sampled_from(list(VALIDATE_FRESH)), t),
        *[st.tuples(st.just("encode"), st.just(e), specs(e)) for e in ENCODERS],
        st.tuples(st.just("register"), st.sampled_from(ENCODERS), st.none()),
        *[st.tuples(st.just("encode-new"), st.just(e), small_specs(e)) for e in ENCODERS],
        *[st.tuples(st.just("encode-kw"), st.just(e), small_specs(e)) for e in ENCODERS],
        st.tuples(st.just("parse-kw"), st.sampled_from(PARSERS), t),
        *[st.tuples(st.just("encode-q"), st.just(e), small_specs(e)) for e in ENCODERS],
        *[st.tuples(st.just("vencode"), st.just(dn),
                    specs({"Omni": "PVL"}.get(dn, dn)))
          for dn in VALIDATE_FRESH],
        *[st.tuples(st.just("tencode"), st.just(f), specs(f))
          for f in TRANSLATE_FRESH],
        st.tuples(st.just("decode"),
                  st.sampled_from(["PVL", "ODL", "PDS3", "ISIS", "default"]),
                  st.sampled_from(["1", "1.5", "NULL", "'q'", "abc", "2001-01-01",
                                   "12:00:60", "2#101#", "a b", "", "=", "16#FF#",
                                   "12:00+07", "inf"] + c17.CURATED)),
    )


@st.composite
def related_encodes(draw):
    """Calls on one encoder whose modules are assembled from the same block objects:
    the blocks alone, with an item that makes the encoder give up part-way before or
    after them, with an OBJECT of their own, and as they are."""
    e = draw(st.sampled_from(ENCODERS))
    base = draw(c13.block_heavy(e))
    blocks = [it for it in base if isinstance(it[1], dict)
              and ("grp" in it[1] or "obj" in it[1])]
    groups = [it for it in blocks if "grp" in it[1]]
    bad = draw(st.sampled_from(c13.PROVOKERS))
    variants = [base, blocks, groups, groups + bad, bad + groups, base + bad,
                base + [["EXTRA_OBJECT", {"obj": [["Z", 1]]}]],
                groups + [["EXTRA_OBJECT", {"obj": [["Z", 1]]}]], blocks[:1]]
    variants = [v for v in variants if v]
    picks = draw(st.lists(st.sampled_from(variants), min_size=2, max_size=6))
    return [("encode-shared", e, p) for p in picks]


def nontrivial(history):
    seen_bad = set()
    for call in history:
        key = (call[0][-5:] if call[0] != "decode" else "decode",
               call[1])
        inst_key = (call[0], call[1])
        if inst_key in seen_bad:
            return True
        if call[0] in ("parse", "vparse"):
            t = call[2]
            if "=\n" in t or t.rstrip().endswith("=") or "\x01" in t or "(" in t \
                    or "END" not in t.upper():
                seen_bad.add(inst_key)
        else:
            seen_bad.add(inst_key)
    return False


def random_histories(acc, n, seed):
    @hseed(seed)
    @settings(max_examples=n, database=None, deadline=None,
              phases=[Phase.generate], suppress_health_check=list(HealthCheck))
    @given(st.one_of(st.lists(calls(), min_size=2, max_size=12),
                     st.lists(calls(), min_size=2, max_size=12),
                     st.lists(calls(), min_size=2, max_size=12), related_encodes()))
    def body(history):
        if acc.expired():
            acc.notes["budget_exhausted"] = 1
            return
        r = run_history(history)
        nt = nontrivial(history)
        acc.case(key=repr(history), nontrivial=nt,
                 sample=[[c[0], c[1], repr(c[2])[:60]] for c in history[:6]]
                 if nt else None)
        acc.event("calls", len(history))
        for c in history:
            acc.event("call:" + c[0])
        if r is not None:
            acc.fail(r[0], dict(history=[list(c) for c in history]), r[1])

    body()


def pristine_histories(acc, n, seed):
    """The histories of random_histories(), but "what a fresh instance gives for that
    text alone" is worked out in a process that has done nothing else: state that the
    library keeps on a class or a module is state between calls, too, and a fresh
    instance in a worker that has made thousands of calls cannot show it."""
    from vlib.zygote import Zygote
    with Zygote("props.c16:alone") as z:
        def one(history):
            r = run_history(history, zyg=z)
            acc.case(key="pristine" + repr(history), nontrivial=True)
            acc.event("pristine-calls", len(history))
            if r is not None:
                acc.fail(r[0].replace("C16/", "C16/new-process/", 1),
                         dict(history=[list(c) for c in history], pristine=True), r[1])

        for e in ENCODERS:
            # the other dialects write first, then the one under test
            for spec in c13.WRAPPED:
                for other in ENCODERS:
                    if other != e:
                        one([("encode", other, c13.WRAPPED[0]), ("encode", e, spec)])
        for v in list(PARSERS):
            for t1 in FIXED_TEXTS[:12]:
                for t2 in FIXED_TEXTS[:6]:
                    if acc.expired():
                        acc.notes["budget_exhausted"] = 1
                        return
                    one([("parse", v, t1), ("parse", v, t2)])

        @hseed(seed)
        @settings(max_examples=n, database=None, deadline=None,
                  phases=[Phase.generate], suppress_health_check=list(HealthCheck))
        @given(st.one_of(st.lists(calls(), min_size=2, max_size=8), related_encodes()))
        def body(history):
            if acc.expired():
                acc.notes["budget_exhausted"] = 1
                return
            one(history)

        body()


def fixed_histories(acc, part=None):
    """Every fixed text after every other fixed text on each parser variant."""
    for v in list(PARSERS):
        if part not in (None, v):
            continue
        for t1 in FIXED_TEXTS:
            for t2 in FIXED_TEXTS:
                hist = [("parse", v, t1), ("parse", v, t2), ("parse", v, t1)]
                r = run_history(hist)
                acc.case(key=repr(hist), nontrivial=True)
                if r is not None:
                    acc.fail(r[0], dict(history=[list(c) for c in hist]), r[1])
            # the same instance handed to pvl.loads() together with another dialect's
            # grammar and decoder, then used on its own again
            for t2 in ("# written by ISIS\nb = 2\nc =\nEND\n", "a = 16#-FF#\nEND\n",
                       "a = \"caf\u00e9\"\nEND\n"):
                hist = [("parse-kw", v, t1), ("parse", v, t2), ("parse-kw", v, t2),
                        ("parse", v, t1)]
                r = run_history(hist)
                acc.case(key=repr(hist), nontrivial=True)
                if r is not None:
                    acc.fail(r[0], dict(history=[list(c) for c in hist]), r[1])
    for dn in VALIDATE_FRESH:
        if part not in (None, "v-" + dn):
            continue
        for t1 in FIXED_TEXTS:
            for t2 in FIXED_TEXTS:
                hist = [("vparse", dn, t1), ("vparse", dn, t2)]
                r = run_history(hist)
                acc.case(key=repr(hist), nontrivial=True)
                if r is not None:
                    acc.fail(r[0], dict(history=[list(c) for c in hist]), r[1])


# texts that fail at some depth inside a value or a block, and texts that load
SOAK_TEXTS = [
    "a = (1, 2\n", "a = ((1, (2, {3\n", "GROUP = g\n OBJECT = o\n x = (1,\n",
    "a = {1, (2, 3}\n", "a = (1 2)\nEND\n", "a = \"open", "a = 1 <m", "a =\nb = (1,",
    "a = (1, (2, 3))\nEND\n", "GROUP = g\n x = 1\nEND_GROUP\nEND\n", "a = ((((((1\n",
    "a = {{{{\n", "k =\nj =\n", "a = (1, \x01)\n", "a = 1 = 2", "a = \"dash-\n x\"\nb =\n",
    "OBJECT = o\n GROUP = g\n  a = (1, {2, (3\n", "a = (1,, 2)\n", "a = 5 <m> <s>\n",
    "x = (1, 2) <m>\nEND\n", "a = b*/\n", "a = 12:00:60\nb = 2001-01-01T00:00:00.1234567\n",
]


def soak(acc, who, n):
    """One long-lived instance gets *n* calls (the texts / modules above, cycling in an
    order that changes every round); every call is repeated on a fresh instance.  What a
    short history cannot show - state that only builds up over many failing calls -
    shows here.  A failure is an ordinary history (all calls so far) and replays alone."""
    hist = []
    if who in PARSERS:
        for i in range(n):
            hist.append(("parse", who, SOAK_TEXTS[(i * 7 + i // len(SOAK_TEXTS))
                                                  % len(SOAK_TEXTS)]))
    else:
        mods = c13.PROVOKERS + [[["g", {"grp": [["x", 1], ["y", {"seq": [1, 2]}]]}],
                                 ["o", {"obj": [["z", {"set": [1, 2]}]]}]]]
        for i in range(n):
            hist.append(("encode", who, mods[(i * 5 + i // len(mods)) % len(mods)]))
    r = run_history(hist, stop_at_first=True)
    acc.case(key=f"soak:{who}:{n}", nontrivial=True, n=n)
    acc.event("soak_calls", n)
    if r is not None:
        step = int(r[1].split()[1])
        acc.fail(r[0], dict(history=[list(c) for c in hist[:step + 1]]), r[1])


def fuzz_decode(data):
    """bytes -> history: byte 0 picks the parser variant (low 3 bits) and whether the
    pvl_validate table is used (bit 3); the rest, split at 0xFF bytes, are the texts."""
    if len(data) < 2:
        return None
    parts = data[1:].split(b"\xff")[:6]
    texts = []
    for b in parts:
        try:
            texts.append(b.decode("utf-8"))
        except UnicodeDecodeError:
            texts.append(b.decode("latin-1"))
    if data[0] & 8:
        dn = list(VALIDATE_FRESH)[data[0] % len(VALIDATE_FRESH)]
        return [("vparse", dn, t) for t in texts]
    v = PARSERS[(data[0] & 7) % len(PARSERS)]
    return [("parse", v, t) for t in texts]


def fuzz_one(data):
    hist = fuzz_decode(data)
    if hist is None:
        return ("short", None)
    r = run_history(hist)
    if r is not None:
        return ("fail", (r[0], dict(history=[list(c) for c in hist]), r[1]))
    return (f"calls-{len(hist)}", None)


def fuzz_corpus():
    out = []
    for i, a in enumerate(FIXED_TEXTS[:18] + SOAK_TEXTS):
        for j, b in enumerate((FIXED_TEXTS[0], SOAK_TEXTS[0], FIXED_TEXTS[1])):
            out.append(bytes([(i + j) % 16]) + a[:150].encode("utf-8") + b"\xff"
                       + b.encode("utf-8") + b"\xff" + a[:150].encode("utf-8"))
    return out


def atheris_shard(acc, seed, runs, use_corpus):
    import sys
    from vlib.fuzzrun import atheris_shard as run
    run(acc, ID, seed, runs, use_corpus, max_len=400, prop=sys.modules[__name__])


# the same spelling once as a name and once as a string value, writable and not
SPELLINGS = ["NULL", "true", "False", "x-", "N/A", "12:00", "END", "a b", "Group", "1e3",
             "caf\u00e9", "2001-001"]
FIXED_SPECS = [[[w, 1]] for w in SPELLINGS] + [[["k", w]] for w in SPELLINGS] + \
    [[[w, {"grp": [["x", 1]]}]] for w in SPELLINGS[:6]] + \
    [[["s", {"seq": [w, "other"]}]] for w in SPELLINGS[:6]] + \
    [[["^PTR", {"seq": []}]], [["^" + "A" * 31, 1]], [["^P", 1e999]],
     [["^P", {"seq": [{"seq": [{"seq": [1]}]}]}]], [["^P", {"seq": ["F.IMG", 5]}]],
     [["k", "MARS ROVER"]], [["k", "it's"]], [["k", {"set": ["two words"]}]]]


def fixed_encodes(acc, enc):
    """Every ordered pair of the small modules above on one encoder instance (then the
    first one again): a spelling that was met as a name must still be judged as a value
    when it comes as a value, refused or not."""
    for a in FIXED_SPECS:
        for b in FIXED_SPECS:
            hist = [("encode", enc, a), ("encode", enc, b), ("encode", enc, a)]
            r = run_history(hist)
            acc.case(key=repr(hist), nontrivial=True)
            acc.event("fixed-encode-histories")
            if r is not None:
                acc.fail(r[0], dict(history=[list(c) for c in hist]), r[1])
    # a call through pvl.dumps() that names another dialect, then plain calls
    for a in FIXED_SPECS[:14] + [[["g", {"grp": [["x", "a+b"]]}]]]:
        hist = [("encode", enc, a), ("encode-kw", enc, a), ("encode", enc, a)]
        r = run_history(hist)
        acc.case(key=repr(hist), nontrivial=True)
        acc.event("fixed-encode-histories")
        if r is not None:
            acc.fail(r[0], dict(history=[list(c) for c in hist]), r[1])
    # modules of both container families in turn (pvl.load and pvl.new.load results
    # handed to the same encoder)
    blocks = [[["g", {"grp": [["x", 1]]}], ["k", 2]], [["o", {"obj": [["y", "z"]]}]],
              [["o", {"obj": [["g", {"grp": [["x", 1]]}]]}], ["g", {"grp": [["a", 1]]}]]]
    for a in blocks:
        for b in blocks:
            for kinds in (("encode", "encode-new", "encode"),
                          ("encode-new", "encode", "encode-new"),
                          ("encode-new", "encode-new", "encode")):
                hist = [(kinds[0], enc, a), (kinds[1], enc, b), (kinds[2], enc, a)]
                r = run_history(hist)
                acc.case(key=repr(hist), nontrivial=True)
                acc.event("fixed-encode-histories")
                if r is not None:
                    acc.fail(r[0], dict(history=[list(c) for c in hist]), r[1])


def shards(tier, seed):
    n = 110 if tier == "quick" else 1500
    out = [("random_histories", dict(n=n, seed=seed * 1000 + j)) for j in range(16)]
    out = [("fixed_histories", dict(part=p))
           for p in list(PARSERS) + ["v-" + dn for dn in VALIDATE_FRESH]] + out
    out += [("fixed_encodes", dict(enc=e)) for e in ENCODERS]
    out += [("pristine_histories", dict(n=40 if tier == "quick" else 800,
                                        seed=seed * 1000 + 700 + j)) for j in range(4)]
    out += [("soak", dict(who=w, n=400 if tier == "quick" else 5000))
            for w in list(PARSERS) + list(ENCODERS)]
    if tier == "thorough":
        out += [("atheris_shard", dict(seed=seed * 100 + j + 1, runs=25000,
                                       use_corpus=bool(j % 2))) for j in range(6)]
    return out


def replay(case):
    hist = []
    for c in case["history"]:
        hist.append((c[0], c[1], c[2]))
    if case.get("pristine"):
        from vlib.zygote import Zygote
        with Zygote("props.c16:alone") as z:
            r = run_history(hist, zyg=z)
        return None if r is None else (r[0].replace("C16/", "C16/new-process/", 1), r[1])
    return run_history(hist)


def shrink(case, still_fails):
    extra = {k: v for k, v in case.items() if k != "history"}
    kept = shrink_seq(case["history"], lambda h: still_fails(dict(extra, history=h)))
    return dict(extra, history=kept)
