"""C17 - value classification is total, exclusive and shared by reader and writer.

Domain : every string of length 1..L (quick 4, thorough 5) over the alphabet
         ``a e E 1 0 _ - + . : # ' " SP T Z``, a curated list of borderline texts,
         and Hypothesis mutations of valid numerals / dates x the five
         grammar/decoder pairs (PVL, ODL, PDS3, ISIS, default) and the four encoders.
Oracle : (A) decode_simple_value returns one of the documented types or raises
             ValueError - its class is keyword / quoted / based integer / decimal /
             date-time / unquoted string / not-a-value;
         (B) that class agrees with reference regular expressions written from the
             specifications for keywords, based integers, decimal numbers, quoted
             strings and strictly formatted dates and times;
         (C) the token predicates is_decimal, is_non_decimal, is_numeric,
             is_datetime, is_quoted_string, is_simple_value equal the class, and at
             most one of them holds;
         (D) text whose class is number or date/time is never is_unquoted_string()
             nor is_parameter_name();
         (E) for every encoder: if encode_string(s) returns s without quotes, the
             dialect's decoder reads it back as exactly s
             (type str); if it adds quotes, it used a quote character absent from s.
"""
import datetime as dtm
from decimal import Decimal
import itertools
import re

from hypothesis import given, seed as hseed, settings, HealthCheck, Phase
from hypothesis import strategies as st

from pvl.token import Token

from vlib import normalise as nm
from vlib.dialects import grammar_decoder as _grammar_decoder, make_encoder

_GD = {}


def grammar_decoder(pair):
    """One grammar/decoder pair per worker process (they are stateless, C16)."""
    if pair not in _GD:
        if pair.endswith("+Decimal"):
            # the same dialect with a caller-supplied real-number class: which class
            # a text belongs to must not depend on it
            _GD[pair] = _grammar_decoder(pair[:-8], real_cls=Decimal)
        else:
            _GD[pair] = _grammar_decoder(pair)
    return _GD[pair]

ID = "C17"
LEVEL = "exploration"
BUDGET = {"quick": 200, "thorough": 1200}
ALPHABET = ["a", "e", "E", "1", "0", "_", "-", "+", ".", ":", "#", "'", '"', " ",
            "T", "Z"]
RULE = (
    "case = (grammar/decoder pair or encoder, token text). Exhaustive: all strings "
    "of length 1..L (quick 4, thorough 5) over " + "".join(ALPHABET) + "; plus a "
    "curated borderline list and Hypothesis mutations of numerals and dates. "
    "Non-trivial = the text is not a plain alphabetic word; distinct by "
    "(pair, text). Texts whose quoted content contains its own quote character are "
    "skipped (they cannot be token texts)."
)
ASSUMPTIONS = [
    "reference regular expressions: decimal [sign](d+[.d*]|.d+)[E[sign]d+]; based "
    "integer per dialect; date/time only in the strict fixed-width forms (one "
    "direction: strict form => date-time class)",
]

PAIRS = ("PVL", "ODL", "PDS3", "ISIS", "default")
DECIMAL_PAIRS = ("PVL+Decimal", "ODL+Decimal", "default+Decimal")
DEC_RE = re.compile(r"[+-]?([0-9]+\.?[0-9]*|\.[0-9]+)([eE][+-]?[0-9]+)?\Z")
INT_RE = re.compile(r"[+-]?[0-9]+\Z")
DIG = "0123456789abcdef"

CURATED = """NULL Null null nUlL TRUE true False FALSE END end End GROUP Group
OBJECT object END_GROUP End_Object BEGIN_OBJECT begin_group inf nan Infinity -inf
+inf NaN 1_0 1__0 _1 1_ 0x10 1d5 1e 1e+ e1 .e1 1.e1 +.5 -.5 . .. + - +- -+ ++1 1+1
1-1 2#101# 2#102# 8#778# 16#FG# 16#ff# 16#FF# 2#+1# 2#-1# +2#1# -2#1# +2#+1# 3#12#
17#1# 1#1# 2## 2#1 #1# 2#1## 10#99# 2001-01-01 2001-1-1 2001-366 2000-366 2001-001
2001-000 2001-06 2001-13-01 2001-02-30 12:00 12:00:60 12:00:61 24:00 12:60 1:5
12:00Z 12:00:00.5 12:00:00.1234567 2001-01-01T12:00 2001-01-01T12:00Z 2001-001T12:00
2001-01-01T 2001-01-01t12:00 12:00+07 12:00-07:30 12:00+7 12:00+13 12:00:60Z
2001-12-31T23:59:60 '' "" 'a' "a" 'a" "a' ' " a'b a"b 'a'b' N/A a.b a:b a_b ^a a+b
x- -x a,b a;b a=b (a) {a} <a> a#b a&b a~b a|b a!b a%b [a] /* */ a/*b // é µ ٣ １２
""".split()
CURATED += ["foo*/", "/*x", "a*/b", "x/*", "*/", "a*b", "a/b"]
# spellings that str.casefold() maps onto a keyword and str.lower() / str.upper() do not
# (long s, Kelvin sign), ligatures, dotless / dotted i
CURATED += ["fal\u017fe", "FAL\u017fE", "Fal\u017fe", "\u212a", "nu\u217c\u217c", "tr\u1d1ce",
            "\ufb01", "\u0130", "\u0131", "en\u217e", "\uff25\uff2e\uff24", "nul\u0142"]
# date-times at the edges of the year range, with zone offsets that push the instant out
CURATED += ["9999-12-31T23:59:59-07", "0001-01-01T00:00:00+01:00", "9999-365T23:00-1",
            "0001-001T00:00+12", "9999-12-31T23:59:59.999999Z", "0001-01-01T00:00",
            "9999-12-31T23:59:59-12:45", "0001-01-01T00:00:00.000001+00:01"]
# a leap second together with a zone offset; long runs of letters and digits that end
# in a character no identifier has (file names)
CURATED += ["23:59:60-07", "00:00:60-1", "2016-12-31T23:59:60+00:00", "12:00:60+01:30",
            "ESP011290185REDMOSAIC00000000010000000001COLOR.IMG", "A" * 40 + ".",
            "abcdefghijklmnopqrstuvwxyz0123456789-x", "a" * 35 + "_", "Z9" * 20 + ":b"]
# lexemes that mean something to str.format(), the % operator, re and string.Template
CURATED += ['"{}"', "'{a}'", '"{0}"', '"%s"', '"%(a)s"', "<{m}>", "<%s>", '"{"', '"}"',
            "'{0!r:>{1}}'", '"\\1"', '"$x"', "a{}", "%s", "{0}", "<{>"]
CURATED += ["", " ", "a b", " a", "a ", "\t", "a\nb", "\xa0", "1 ", " 1"]
# the longest forms each dialect admits (and one character more)
CURATED += ["2001-01-01T12:00:00.123456Z", "2001-001T12:00:00.123456Z",
            "2001-01-01T12:00:00.123456", "2001-01-01T12:00:00.123-08:00",
            "2001-027T23:59:59.123456-0530", "2001-01-01T12:00:00.123456+05:30",
            "2001-01-01T12:00:00.123456-12:45", "2001-12-31T23:59:60.123456Z",
            "2001-01-01T12:00:00.1234567Z", "12:00:00.123456+05:30",
            "12:00:00.123456-5", "16#0123456789ABCDEF0123456789abcdef#",
            "-123456789012345678901234567890.123456789E+123",
            "a" * 40, "A_" * 20 + "B", "x" * 31]


def EXHAUSTIVE(tier):
    return True


def ref_based(s, pair):
    """True if s is a based integer by the dialect's grammar."""
    m = re.match(r"([+-]?)([0-9]+)#([+-]?)([0-9A-Fa-f]+)#\Z", s)
    if not m:
        return False
    s1, radix, s2, digs = m.groups()
    r = int(radix)
    if len(radix) > 1 and radix[0] == "0":
        return False
    if pair in ("PVL", "ISIS"):
        if r not in (2, 8, 16) or s2:
            return False
    elif pair in ("ODL", "PDS3"):
        if not 2 <= r <= 16 or s1:
            return False
    else:
        if not 2 <= r <= 16 or (s1 and s2):
            return False
    return all(c.lower() in DIG[:r] for c in digs)


STRICT_TIME = re.compile(r"([01]\d|2[0-3]):[0-5]\d(:[0-5]\d(\.\d{1,6})?)?Z?\Z")
STRICT_DATE = re.compile(r"(\d{4})-(\d\d)-(\d\d)\Z")
STRICT_DOY = re.compile(r"(\d{4})-(\d{3})\Z")


def ref_strict_date(s):
    m = STRICT_DATE.match(s)
    if m:
        try:
            dtm.date(int(m.group(1)), int(m.group(2)), int(m.group(3)))
            return True
        except ValueError:
            return False
    m = STRICT_DOY.match(s)
    if m:
        y, j = int(m.group(1)), int(m.group(2))
        if y < 1:
            return False
        leap = y % 4 == 0 and (y % 100 != 0 or y % 400 == 0)
        return 1 <= j <= (366 if leap else 365)
    return False


def ref_strict_temporal(s, pair):
    if ref_strict_date(s):
        return True
    t = s
    if "T" in s:
        d, _, t = s.partition("T")
        if not ref_strict_date(d):
            return False
    m = STRICT_TIME.match(t)
    if not m:
        return False
    if pair == "PDS3" and m.group(3) and len(m.group(3)) > 4 and \
            m.group(3)[4:].strip("0"):
        return False                 # finer than milliseconds: PDS3 rejects
    return True


LEAP_RE = re.compile(
    r"((?!0000)\d{4}-((0[1-9]|1[0-2])-(0[1-9]|[12]\d|3[01])|"
    r"(00[1-9]|0[1-9]\d|[12]\d\d|3[0-5]\d|36[0-6]))T)?"
    r"([01]\d|2[0-3]):[0-5]\d:60(\.\d+)?Z?\Z")


def decoder_class(dec, s):
    """(class, value|None) from decode_simple_value, or raises on a foreign
    exception."""
    try:
        v = dec.decode_simple_value(s)
    except ValueError:
        return ("not-a-value", None)
    if v is None or isinstance(v, bool):
        return ("keyword", v)
    if isinstance(v, int):
        return ("based" if "#" in s else "decimal", v)
    if isinstance(v, (float, Decimal)):
        return ("decimal", v)
    if isinstance(v, (dtm.date, dtm.time)):
        return ("datetime", v)
    if type(v) is str:
        if len(s) >= 2 and s[0] in "\"'" and s[-1] == s[0]:
            return ("quoted", v)
        if v == s and LEAP_RE.match(s):
            return ("datetime", v)        # leap second kept as text
        return ("unquoted", v)
    return ("other:" + type(v).__name__, v)


HOWS = ("split", "strip", "replace", "lstrip", "rstrip")


def derive(how, s, g, dec):
    """The Token for *s* as the public helpers of Token hand it out (None when that
    helper cannot produce exactly *s*)."""
    if how == "split":
        t = Token("NAME " + s, grammar=g, decoder=dec).split()
        t = t[1] if len(t) == 2 else None
    elif how == "strip":
        t = Token(" \t" + s + "\n", grammar=g, decoder=dec).strip()
    elif how == "lstrip":
        t = Token("\n " + s, grammar=g, decoder=dec).lstrip()
    elif how == "rstrip":
        t = Token(s + " \r\n", grammar=g, decoder=dec).rstrip()
    elif how == "replace":
        t = Token("@@" + s, grammar=g, decoder=dec).replace("@@", "", 1) \
            if "@@" not in s else None
    else:
        t = Token(s, grammar=g, decoder=dec)
    if t is None or str(t) != s or not isinstance(t, Token):
        return None
    return t


def check_pair(pair, s, how="direct"):
    """None or (signature, detail)."""
    if len(s) >= 2 and s[0] in "\"'" and s[-1] == s[0] and s[0] in s[1:-1]:
        return "skip"
    g, dec = grammar_decoder(pair)
    base = pair.split("+")[0]
    try:
        cls, val = decoder_class(dec, s)
    except Exception as e:
        return (f"C17/{pair}/decode-raises/{type(e).__name__}", f"{s!r}: {e!r}")
    if cls.startswith("other"):
        return (f"C17/{pair}/undocumented-type", f"{s!r} -> {cls}")
    # (B) reference
    fold = s.casefold()
    ref = None
    if fold in ("null", "true", "false"):
        ref = "keyword"
    elif len(s) >= 2 and s[0] in "\"'" and s[-1] == s[0]:
        ref = "quoted"
    elif ref_based(s, base):
        ref = "based"
    elif DEC_RE.match(s):
        ref = "decimal"
    elif ref_strict_temporal(s, base):
        ref = "datetime"
    if ref is not None and cls != ref:
        return (f"C17/{pair}/class/{ref}-read-as-{cls}",
                f"{s!r} is a {ref} by the grammar, decode_simple_value gives "
                f"{cls} ({val!r})")
    if ref is None and cls in ("keyword", "based", "decimal", "quoted"):
        return (f"C17/{pair}/class/non-{cls}-read-as-{cls}",
                f"{s!r} is not a {cls} by the grammar but decoded to {val!r}")
    if cls == "decimal":
        want_int = bool(INT_RE.match(s))
        if isinstance(val, int) != want_int:
            return (f"C17/{pair}/class/int-vs-real",
                    f"{s!r} decoded to {type(val).__name__}")
    if cls == "unquoted":
        bad = [c for c in s if c in " \t\r\n\x0b\x0c" or c in g.reserved_characters]
        if bad:
            return (f"C17/{pair}/class/unquoted-with-reserved",
                    f"{s!r} decoded as unquoted string although it contains {bad!r}")
        if val != s:
            return (f"C17/{pair}/class/unquoted-altered", f"{s!r} -> {val!r}")
    # (C) predicates
    try:
        tok = derive(how, s, g, dec)
        if tok is None:
            return "skip"
        preds = dict(decimal=tok.is_decimal(), based=tok.is_non_decimal(),
                     datetime=tok.is_datetime(), quoted=tok.is_quoted_string())
        numeric = tok.is_numeric()
        simple = tok.is_simple_value()
        unq = tok.is_unquoted_string()
        pname = tok.is_parameter_name()
        isstr = tok.is_string()
    except Exception as e:
        return (f"C17/{pair}/predicate-raises/{type(e).__name__}", f"{s!r}: {e!r}")
    for name, got in preds.items():
        # keywords win over everything in the decoder cascade
        want = (cls == name)
        if cls == "keyword":
            want = False
        if got != want:
            return (f"C17/{pair}/predicate/is_{name}",
                    f"{s!r}: class {cls}, is_{name}() is {got}")
    if sum(preds.values()) > 1:
        return (f"C17/{pair}/not-exclusive", f"{s!r}: {preds}")
    if numeric != (preds["decimal"] or preds["based"]):
        return (f"C17/{pair}/predicate/is_numeric", f"{s!r}: {numeric} vs {preds}")
    if simple != (cls != "not-a-value"):
        return (f"C17/{pair}/predicate/is_simple_value",
                f"{s!r}: class {cls}, is_simple_value() is {simple}")
    if isstr != (preds["quoted"] or unq):
        return (f"C17/{pair}/predicate/is_string", f"{s!r}")
    # (D) consequences
    if cls in ("decimal", "based", "datetime") and (unq or pname):
        return (f"C17/{pair}/number-or-date-accepted-as-name",
                f"{s!r} is a {cls} but is_unquoted_string()={unq}, "
                f"is_parameter_name()={pname}")
    return None


ENC_PAIR = {"PVL": "PVL", "ODL": "ODL", "PDS3": "PDS3", "ISIS": "ISIS"}
_ENC = {}


def check_encoder(enc, s):
    e = _ENC.get(enc)
    if e is None:
        e = _ENC[enc] = make_encoder(enc)
    try:
        out = e.encode_string(s)
    except ValueError:
        return "refused"
    except Exception as ex:
        return (f"C17/enc-{enc}/encode_string-raises/{type(ex).__name__}",
                f"{s!r}: {ex!r}")
    if out == s:
        for pair in (ENC_PAIR[enc],):
            g, dec = grammar_decoder(pair)
            try:
                back = dec.decode_simple_value(s)
            except ValueError:
                back = ValueError
            if not (type(back) is str and back == s):
                return (f"C17/enc-{enc}/unquoted-does-not-read-back/{pair}",
                        f"{enc} writes {s!r} without quotes; the {pair} decoder "
                        f"reads it as {back!r}")
        return None
    if len(out) == len(s) + 2 and out[0] in "\"'" and out[-1] == out[0] \
            and out[1:-1] == s:
        if out[0] in s:
            return (f"C17/enc-{enc}/quote-character-inside",
                    f"{s!r} written as {out!r}")
        return None
    return (f"C17/enc-{enc}/encode_string-altered", f"{s!r} written as {out!r}")


def plain_word(s):
    return s.isalpha() and s.isascii()


def run_string(acc, s):
    if s == "":
        return              # the empty text is never a token
    pairs = list(PAIRS + (DECIMAL_PAIRS if len(s) != 4 else ()))
    # whichever pair is asked first about a text, the others give their own answer: the
    # order rotates with the text
    import zlib
    k = zlib.crc32(s.encode("utf-8", "surrogatepass")) % len(pairs)
    for pair in pairs[k:] + pairs[:k]:
        r = check_pair(pair, s)
        if r == "skip":
            acc.event("skipped-inner-quote")
            continue
        acc.case(key=pair + "\0" + s, nontrivial=not plain_word(s),
                 sample={"pair": pair, "text": s} if s in ("1e+1", "'a'", "T0:1")
                 else None)
        if r is not None:
            acc.fail(r[0], dict(kind="pair", pair=pair, text=s), r[1])
    for enc in ENC_PAIR:
        r = check_encoder(enc, s)
        if r == "refused":
            acc.event("encoder-refused")
            continue
        acc.case(key="enc" + enc + "\0" + s, nontrivial=not plain_word(s))
        if r is not None:
            acc.fail(r[0], dict(kind="enc", enc=enc, text=s), r[1])


def exhaustive(acc, prefix, length):
    for tail in itertools.product(ALPHABET, repeat=length - len(prefix)):
        if acc.expired():
            acc.notes["budget_exhausted"] = 1
            return
        run_string(acc, prefix + "".join(tail))
    acc.event("exhaustive_prefixes")


def curated(acc):
    for s in CURATED:
        run_string(acc, s)
        # the same text as a Token that Token.split() / strip() / replace() returned
        for how in HOWS:
            for pair in PAIRS + DECIMAL_PAIRS:
                r = check_pair(pair, s, how)
                if r == "skip":
                    continue
                acc.case(key=pair + how + "\0" + s, nontrivial=not plain_word(s))
                acc.event("derived-token:" + how)
                if r is not None:
                    acc.fail(r[0].replace("C17/", "C17/derived-token/", 1),
                             dict(kind="pair", pair=pair, text=s, how=how), r[1])
        for t in (s.upper(), s.lower(), s.title(), "+" + s, "-" + s, s + "Z",
                  s + "#", "'" + s + "'", s + "_", s + "0"):
            run_string(acc, t)
    acc.event("curated", len(CURATED))


def mutations(acc, n, seed):
    base = st.sampled_from(["123", "-1.5e+10", "+16#FF#", "8#-17#", "2001-01-01",
                            "2001-123", "12:34:56.789Z", "2001-01-01T12:34:56",
                            "12:00:60", "NULL", "true", "abc_DEF", "01:10:39+07",
                            "2001-01-01T12:00:00.123-08:00", "2001-027T23:59:59.123456-0530",
                            "2001-01-01T12:00:00.123456Z",
                            "1.", ".5", "1e5", "2#1#", "END_GROUP"])
    edit = st.tuples(st.sampled_from(["ins", "del", "rep"]), st.integers(0, 30),
                     st.sampled_from(ALPHABET + ["9", "f", "F", "/", "*", "2", "6"]))

    @hseed(seed)
    @settings(max_examples=n, database=None, deadline=None,
              phases=[Phase.generate], suppress_health_check=list(HealthCheck))
    @given(base, st.lists(edit, min_size=1, max_size=3))
    def body(s, edits):
        if acc.expired():
            acc.notes["budget_exhausted"] = 1
            return
        for op, pos, ch in edits:
            i = pos % (len(s) + 1)
            if op == "ins":
                s = s[:i] + ch + s[i:]
            elif op == "del" and s:
                s = s[:i % len(s)] + s[i % len(s) + 1:]
            elif s:
                s = s[:i % len(s)] + ch + s[i % len(s) + 1:]
        if s:
            run_string(acc, s)
            acc.event("mutations")

    body()


def shards(tier, seed):
    L = 4 if tier == "quick" else 5
    out = [("curated", {})]
    for length in range(1, L + 1):
        if length <= 2:
            out.append(("exhaustive", dict(prefix="", length=length)))
        elif length <= 4:
            for a in ALPHABET:
                out.append(("exhaustive", dict(prefix=a, length=length)))
        else:
            for a in ALPHABET:
                for b in ALPHABET:
                    out.append(("exhaustive", dict(prefix=a + b, length=length)))
    n = 400 if tier == "quick" else 8000
    for j in range(8):
        out.append(("mutations", dict(n=n, seed=seed * 1000 + j)))
    return out


def replay(case):
    if case["kind"] == "pair":
        r = check_pair(case["pair"], case["text"], case.get("how", "direct"))
        if r not in (None, "skip") and case.get("how"):
            r = (r[0].replace("C17/", "C17/derived-token/", 1), r[1])
    else:
        r = check_encoder(case["enc"], case["text"])
    if r in (None, "skip", "refused"):
        return None
    return r
