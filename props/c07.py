"""C07 - load, dump, load is stable: normalisation is idempotent.

Domain : texts the default loader accepts - grammar-generated with free spelling
         (vlib.gen_text, 'default' dialect, random layouts), texts with value gaps
         (C08 generator), the tests/data corpus, and a pool of loader-only values
         (leap seconds, units on sequences, mixed-case keywords), character-level
         mutants of all of these (delete / splice / duplicate / swap / join lines), and
         - thorough tier - coverage-guided bytes from atheris with this oracle inside
         the target, x four encoders x encoder options.
Oracle : m1 = loads(t0); t1 = dumps(m1, E) (refusal -> skipped, counted);
         m2 = loads(t1) must succeed and equal m1 up to the C01 normalisations of E;
         t2 = dumps(m2, E) must equal t1 byte for byte, or after sorting the
         elements of each set literal when the module contains a set with >= 2
         elements.
"""
import glob
import os
import re

import pvl
from hypothesis import given, seed as hseed, settings, HealthCheck, Phase
from hypothesis import strategies as st

from props import c01, c08
from vlib import gen_text as gt
from vlib import normalise as nm
from vlib.budget import BudgetExceeded
from vlib.dialects import budget_parser, make_encoder, ENCODERS
from vlib.shrink import shrink_seq

ID = "C07"
LEVEL = "exploration"
BUDGET = {"quick": 200, "thorough": 1200}
REPO = os.environ.get("VERIF_REPO", "/repo")
RULE = (
    "case = (text t0 loadable by the default loader, encoder, options). t0 comes "
    "from the grammar generator (free spelling, random layout), the gap generator "
    "of C08 (placeholders), the tests/data corpus, a pool of loader-only values, or "
    "1-4 character-level mutations of one of those (kept when the loader still "
    "accepts the text); thorough adds coverage-guided atheris inputs. "
    "Non-trivial = m1 is non-empty, the encoder accepted it and t1 != t0; distinct "
    "by (text, encoder, options)."
)
ASSUMPTIONS = [
    "normalisations allowed between m1 and m2: upper-cased parameter names "
    "(ODL/PDS3), GROUP->OBJECT (PDS3), set == frozenset, EmptyValueAtLine == ''",
    "set literals may list their elements in another order in t2",
]

POOL = [
    # strings that end in a dash and carry units, in statements that have to be wrapped
    # (where a line may end between a value and its units)
    "FOXES = (\"alpha-\" <m>, \"bravo-\" <m>, \"charlie-\" <m>, \"delta-\" <m>, \"echo-\" <m>, \"foxtrots-\" <m>, \"golf-\" <m>, \"hotel-\" <m>, \"india-\" <m>, \"juliet-\" <m>)\n"
    "TAIL = \"a-rather-long-word-that-ends-in-a-dash-and-fills-most-of-the-line-by-itself-\" <km>\n"
    "MORE = (\"x-\" <m>, \"yy-\" <m>, \"zzz-\" <m>, \"wwww-\" <m>, \"vvvvv-\" <m>, \"uuuuuu-\" <m>, \"ttttttt-\" <m>, \"ssssssss-\" <m>, \"rrrrrrrrr-\" <m>)\n",
    # strings that hold the other quote character: short, longer than half a line,
    # longer than a line, with a control character, as a sequence element
    "NOTE = 'The \"raw\" counts are stored as 16-bit integers in this file'\n"
    "SHORT = 'a \"b\" c'\nWORD = '\"'\nAPOS = \"it's a 'quoted' word that goes on for more than forty characters\"\n",
    "LIST = ('say \"hi\" to the instrument team and to everybody else who reads this', 'x')\n"
    "LONG = 'The \"raw\" counts " + "and more words " * 8 + "end'\nCTRL = 'a \"\x07\" b'\n",
    "t = 12:30:60\nu = 2001-01-01T23:59:60.5Z\nv = 1999-365T23:59:60\n",
    "s = (1, 2, 3) <m>\nq = {a, b} <km/s>\nn = ((1, 2), (3, 4)) <deg>\n",
    "begin_object = o\n  Begin_Group = g\n    a = TrUe\n    b = nUlL\n  End_Group\nEND_OBJECT = o\neNd\n",
    "a = \nb = \nGroup = g\n c =\nEnd_Group\nd = 1\n",
    "k = 'single' j = \"double\" l = 'it''s' \n",
    "e = 2#-101# f = -2#101# g = 16#+ff# h = +16#FF#\n",
    "x = 1.0E+05 y = .5 z = 5. w = -0.0 v = +0\n",
    "s = \"a -\n   b\" t = \"  padded  \" u = \"tab\tinside\"\n",
    "d = 2001-001 e = 2001-12-31T01:02:03.000004 f = 01:02Z\n",
    "t = 10:54:00.129 u = 2001-01-01T00:00:00.004Z v = 23:59:00.5 w = 00:00:00.000\n",
    "z1 = 10:30+12:45 z2 = 2001-01-01T10:30:00-12:30 z3 = 01:02:03-00:30 z4 = 12:00+0\n",
    "p = ^x q = N/A r = a+b s = C++ t = +x\n",
    "pattern = \"a*/b\" q = (\"r**/s\", \"x/*y\", \"*/\") r = \"4:3\" s = \"+5\"\n",
    "name = \"NULL\" other = \"true\" third = 'END' fourth = \"Group\"\n",
    "note = \"pre- and post-launch 2- or 3-axis - x- xxxxxxxxxxxx- end- of the long-word- list -- beta\"\n"
    "list = (\"- first bullet of a long description that wraps\", \"xxxxxxxxxxxxxxxxxxxxxxxxxxxxxxxxxxxxxxxxxxxxxxxxxx- yyyyyyyyyyyyyyyyyyyyyyyyyyyyyyyyyyyyyyyy\")\n",
    "RADIANCE = (1.5 <W / m**2 / sr>, 2.25 <W / m**2 / sr>, 3.125 <W / m**2 / sr>, 4.0 <W / m**2 / sr>, 5.5 <W / m**2 / sr>, 6.75 <W / m**2 / sr>, 7.0 <W / m**2 / sr>, 8.5 <W / m**2 / sr>)\n"
    "SCALE = (10 <m / pixel>, 20 <m / pixel>, 30 <m / pixel>, 40 <m / pixel>, 50 <m / pixel>, 60 <m / pixel>)\n",
    "e = 5 <>\nf = (1, 2) < >\ng = {3 <>}\nh = 2.5 <>\n",
    "TABBED = (100 <m\ts>, 101 <m\ts>, 102 <m\ts>, 103 <m\ts>, 104 <m\ts>, 105 <m\ts>, 106 <m\ts>, 107 <m\ts>, 108 <m\ts>, 109 <m\ts>, 110 <m\ts>, 111 <m\ts>)\n",
    "long = (\"alpha beta gamma delta epsilon zeta eta theta iota kappa\", \"lambda mu nu xi omicron pi rho sigma tau upsilon\", third-word)\n",
]


def corpus():
    out = []
    for f in sorted(glob.glob(os.path.join(REPO, "tests", "data", "**", "*"),
                              recursive=True)):
        if os.path.isfile(f) and os.path.getsize(f) < 30000:
            try:
                out.append(pvl.get_text_from(f))
            except Exception:
                pass
    return out


def norm_canon(c, enc, tab=0):
    """Apply E's documented normalisations to a canonical tree.  *tab*: the PDS3
    encoder's tab_replace option (every TAB it writes becomes that many blanks)."""
    k = c[0]
    if k in ("mod", "grp", "obj"):
        items = []
        for name, v in c[1]:
            is_block = v[0] in ("grp", "obj")
            nn = name.upper() if (enc in ("ODL", "PDS3") and not is_block) else name
            items.append((nn, norm_canon(v, enc, tab)))
        return (k, tuple(items))
    if k == "seq":
        return ("seq", tuple(norm_canon(i, enc, tab) for i in c[1]))
    if k == "set":
        return ("set", frozenset(norm_canon(i, enc, tab) for i in c[1]))
    if k == "q":
        return ("q", norm_canon(c[1], enc, tab),
                c[2].replace("\t", " " * tab) if tab else c[2])
    return c


def _scan(text, i, closer):
    """Scans text[i:] up to the *closer* character at nesting level 0 (or to the
    end if closer is None).  Returns (normalised string, next index).  Elements of
    every {...} literal are sorted; quoted strings and units are opaque."""
    out = []
    elems = []          # only used when closer == "}"
    cur = []
    n = len(text)
    while i < n:
        c = text[i]
        if c == closer:
            break
        if c in "\"'":
            j = text.find(c, i + 1)
            j = n - 1 if j < 0 else j
            cur.append(text[i:j + 1])
            i = j + 1
        elif c == "<":
            j = text.find(">", i + 1)
            j = n - 1 if j < 0 else j
            cur.append(text[i:j + 1])
            i = j + 1
        elif c == "{":
            inner, i = _scan(text, i + 1, "}")
            cur.append("{" + inner + "}")
            i += 1
        elif c == "(":
            inner, i = _scan(text, i + 1, ")")
            cur.append("(" + inner + ")")
            i += 1
        elif c == "," and closer == "}":
            elems.append(" ".join("".join(cur).split()))
            cur = []
            i += 1
        else:
            cur.append(c)
            i += 1
    if closer == "}":
        elems.append(" ".join("".join(cur).split()))
        return ", ".join(sorted(elems)), i
    return "".join(cur), i


def sort_sets(text):
    return " ".join(_scan(text, 0, None)[0].split())


def has_multi_set(c):
    k = c[0]
    if k == "set":
        return len(c[1]) >= 2 or any(has_multi_set(i) for i in c[1])
    if k in ("mod", "grp", "obj"):
        return any(has_multi_set(v) for _, v in c[1])
    if k == "seq":
        return any(has_multi_set(i) for i in c[1])
    if k == "q":
        return has_multi_set(c[1])
    return False


def run_case(case):
    """("skip"|"refused"|"ok", info) or ("fail", sig, detail)."""
    t0, enc, cfg = case["text"], case["enc"], case["cfg"]
    p = budget_parser("default")
    try:
        m1 = p.parse(t0)
    except BaseException as e:
        return ("skip", f"t0 does not load: {type(e).__name__}")
    c1 = nm.canon(m1)
    try:
        t1 = make_encoder(enc, **cfg).encode(m1)
    except (ValueError, TypeError) as e:
        return ("refused", type(e).__name__)
    except Exception as e:
        return ("fail", f"C07/{enc}/encode-raises/{type(e).__name__}",
                f"{e!r}; t0={t0[:300]!r}")
    if nm.canon(m1) != c1:
        return ("fail", f"C07/{enc}/encode-mutates-module", f"t0={t0[:300]!r}")
    try:
        m2 = budget_parser("default").parse(t1)
    except BudgetExceeded:
        return ("fail", f"C07/{enc}/reload-spins", f"t1={t1!r}")
    except Exception as e:
        return ("fail", f"C07/{enc}/reload-fails/{type(e).__name__}",
                f"{type(e).__name__}: {str(e)[:200]}; t1={t1!r}; t0={t0[:300]!r}")
    exp = norm_canon(c1, enc, cfg.get("tab_replace", 4) if enc == "PDS3" else 0)
    c2 = nm.canon(m2)
    d = nm.diff(exp, c2, allow_g2o=(enc == "PDS3"))
    if d is not None:
        ek = d[1][0] if isinstance(d[1], tuple) and d[1] and isinstance(d[1][0], str) else "item"
        gk = d[2][0] if isinstance(d[2], tuple) and d[2] and isinstance(d[2][0], str) else "item"
        if ek not in c01_kinds():
            ek = "item"
        if gk not in c01_kinds():
            gk = "item"
        return ("fail", f"C07/{enc}/second-load-differs/{ek}->{gk}",
                f"at {d[0]}: first load {d[1]!r} second load {d[2]!r}; t1={t1!r}; "
                f"t0={t0[:300]!r}")
    if list(getattr(m2, "errors", [])):
        return ("fail", f"C07/{enc}/errors-after-redump",
                f"errors={m2.errors}; t1={t1!r}")
    try:
        t2 = make_encoder(enc, **cfg).encode(m2)
    except Exception as e:
        return ("fail", f"C07/{enc}/second-dump-raises/{type(e).__name__}",
                f"{e!r}; t1={t1!r}")
    if t1 != t2:
        if not (has_multi_set(c2) and sort_sets(t1) == sort_sets(t2)):
            i = next((k for k, (a, b) in enumerate(zip(t1, t2)) if a != b),
                     min(len(t1), len(t2)))
            return ("fail", f"C07/{enc}/second-dump-differs",
                    f"first differing char {i}: t1[..]={t1[max(0,i-40):i+40]!r} "
                    f"t2[..]={t2[max(0,i-40):i+40]!r}")
    return ("ok", (t1, len(c1[1]) > 0 and t1 != t0))


def c01_kinds():
    return {"none", "bool", "int", "float", "str", "date", "time", "dt", "q", "seq",
            "set", "grp", "obj", "mod"}


_CORPUS = None

# what a mutation may splice in: PVL-significant characters and lexemes that change the
# class of their neighbour (the quantifier's "mutated variants")
SPLICE = ["-", "+", ".", "#", "'", '"', "=", ";", ",", "(", ")", "{", "}", "<", ">",
          "/*", "*/", "/* c */", "\n", "\r\n", "\t", " ", "  ", "-\n", "&", "^", ":",
          "e", "E", "T", "Z", "_", "0", "1", "2#", "16#", "#", "<m>", "<km/s>", "NULL",
          "true", "END", "End_Group", "Group = g", "Object", "1e400", "12:00:60",
          "\x0b", "\x0c", "\xa0", "\u00e9", "\u2028", "''", '""', "a = ", " = "]


@st.composite
def mutants(draw):
    """A loadable text (generated, pool or corpus) with 1-4 character-level edits:
    delete a short run, splice in a significant lexeme, duplicate a run, swap two
    neighbouring runs, or join two lines.  Whether the result still loads is decided by
    the loader (run_case skips what it refuses)."""
    global _CORPUS
    if _CORPUS is None:
        _CORPUS = corpus()
    base = draw(st.sampled_from(["gen", "gen", "pool", "corpus"]))
    if base == "gen":
        doc = draw(gt.documents("default", min_statements=1))
        t = gt.seeded_layout(doc, "default", draw(st.integers(0, 2 ** 32)), "light")
    elif base == "corpus" and _CORPUS:
        t = draw(st.sampled_from(_CORPUS))
        if len(t) > 1200:
            a = draw(st.integers(0, len(t) - 1200))
            a = t.rfind("\n", 0, a) + 1
            t = t[a:a + 1200]
    else:
        t = draw(st.sampled_from(POOL))
    for _ in range(draw(st.integers(1, 4))):
        if not t:
            break
        op = draw(st.sampled_from(["del", "ins", "ins", "dup", "swap", "join"]))
        i = draw(st.integers(0, len(t) - 1))
        k = draw(st.integers(1, 6))
        if op == "del":
            t = t[:i] + t[i + k:]
        elif op == "ins":
            t = t[:i] + draw(st.sampled_from(SPLICE)) + t[i:]
        elif op == "dup":
            t = t[:i] + t[i:i + k] + t[i:]
        elif op == "swap":
            t = t[:i] + t[i + k:i + 2 * k] + t[i:i + k] + t[i + 2 * k:]
        else:
            j = t.find("\n", i)
            if j >= 0:
                t = t[:j] + " " + t[j + 1:]
    return t


@st.composite
def cases(draw, enc):
    global _CORPUS
    if _CORPUS is None:
        _CORPUS = corpus()
    src = draw(st.sampled_from(["gen", "gen", "gen", "gap", "corpus", "pool",
                                "mutant", "mutant"]))
    if src == "mutant":
        return dict(text=draw(mutants()), enc=enc, cfg=draw(c01.cfgs(enc)), src=src)
    if src == "gen":
        gd = enc if (enc in ("ODL", "PDS3") and draw(st.booleans())) else "default"
        doc = draw(gt.documents(gd, min_statements=1))
        text = gt.seeded_layout(doc, gd, draw(st.integers(0, 2 ** 32)),
                                draw(st.sampled_from(["light", "full"])))
    elif src == "gap":
        text = draw(c08.cases("default"))["text"]
    elif src == "corpus" and _CORPUS:
        text = draw(st.sampled_from(_CORPUS))
    else:
        text = draw(st.sampled_from(POOL))
        src = "pool"
    return dict(text=text, enc=enc, cfg=draw(c01.cfgs(enc)), src=src)


def random_cases(acc, enc, n, seed):
    @hseed(seed)
    @settings(max_examples=n, database=None, deadline=None,
              phases=[Phase.generate],
              suppress_health_check=list(HealthCheck))
    @given(cases(enc))
    def body(case):
        if acc.expired():
            acc.notes["budget_exhausted"] = 1
            return
        r = run_case(case)
        acc.event(f"{enc}:{r[0]}")
        acc.event(f"src:{case['src']}:{r[0]}")
        if r[0] == "skip":
            return
        nt = r[0] == "ok" and r[1][1]
        acc.case(key=repr((case["text"], enc, case["cfg"])), nontrivial=nt,
                 sample={"enc": enc, "cfg": case["cfg"], "t0": case["text"][:150],
                         "t1": r[1][0][:150]} if nt else None)
        if r[0] == "fail":
            acc.fail(r[1], dict(text=case["text"], enc=enc, cfg=case["cfg"]), r[2])

    body()


def fixed_cases(acc, enc):
    """Every pool and corpus text with default options (always run)."""
    for text in POOL + corpus():
        case = dict(text=text, enc=enc, cfg={})
        r = run_case(case)
        acc.event(f"fixed:{enc}:{r[0]}")
        if r[0] == "skip":
            continue
        nt = r[0] == "ok" and r[1][1]
        acc.case(key=repr((text, enc, "fixed")), nontrivial=nt)
        if r[0] == "fail":
            acc.fail(r[1], case, r[2])


FUZZ_CFGS = [{}, {"width": 40}, {"indent": 0, "width": 20}, {"width": 132, "indent": 4}]


def fuzz_decode(data):
    """bytes -> case: byte 0 picks the encoder and one of four option sets."""
    if len(data) < 2:
        return None
    try:
        text = data[1:].decode("utf-8")
    except UnicodeDecodeError:
        text = data[1:].decode("latin-1")
    return dict(text=text, enc=ENCODERS[data[0] % 4], cfg=FUZZ_CFGS[(data[0] // 4) % 4])


def fuzz_one(data):
    case = fuzz_decode(data)
    if case is None:
        return ("short", None)
    r = run_case(case)
    if r[0] == "fail":
        return ("fail", (r[1], case, r[2]))
    return (r[0], None)


def fuzz_corpus():
    out = []
    for k, t in enumerate(POOL + [c[:380] for c in corpus()]):
        out.append(bytes([k % 16]) + t.encode("utf-8", "replace"))
    return out


def atheris_shard(acc, seed, runs, use_corpus):
    import sys
    from vlib.fuzzrun import atheris_shard as run
    run(acc, ID, seed, runs, use_corpus, max_len=400, prop=sys.modules[__name__])


def shards(tier, seed):
    n = 300 if tier == "quick" else 6000
    out = [("random_cases", dict(enc=ENCODERS[j % 4], n=n, seed=seed * 1000 + j))
           for j in range(16)]
    out += [("fixed_cases", dict(enc=e)) for e in ENCODERS]
    if tier == "thorough":
        out += [("atheris_shard", dict(seed=seed * 100 + j + 1, runs=150000,
                                       use_corpus=bool(j % 2))) for j in range(8)]
    return out


def replay(case):
    r = run_case(case)
    if r[0] == "fail":
        return (r[1], r[2])
    return None


def shrink(case, still_fails):
    cur = dict(case)
    if cur["cfg"] and still_fails({**cur, "cfg": {}}):
        cur["cfg"] = {}
    if len(cur["text"]) < 3000:
        lines = cur["text"].split("\n")
        kept = shrink_seq(lines, lambda ls: still_fails({**cur, "text": "\n".join(ls)}))
        cur["text"] = "\n".join(kept)
    return cur
