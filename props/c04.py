"""C04 - white space and comments never change the meaning of a label.

Domain : token lists (vlib.gen_text) x two independent random layouts drawn over
         {SP, TAB, LF, CR, CRLF, VT, FF} and the dialect's comments, plus the
         single-blank canonical layout; x six parser variants, plus five mixed
         wirings pvl.loads(text, grammar=G(), decoder=D()) in which the decoder keeps
         its own default grammar.
         Plus every label of tests/data that loads (tokens from an own tokeniser,
         validated per file against the loader) in 4 (quick) / 150 (thorough) layouts.
Oracle : metamorphic - load(layout1) == load(layout2) == load(canonical), and no
         layout fails if the canonical one loads.
"""
from hypothesis import given, seed as hseed, settings, HealthCheck, Phase
from hypothesis import strategies as st

from vlib import gen_text as gt
from vlib import normalise as nm
from vlib.budget import BudgetExceeded
from vlib.dialects import budget_parser, PARSERS
from vlib.shrink import shrink_seq

ID = "C04"
LEVEL = "exploration"
BUDGET = {"quick": 200, "thorough": 1200}
RULE = (
    "case = (parser variant, token list of a generated well-formed document, two "
    "random layouts + the canonical single-blank layout). Separators are runs of "
    "SP/TAB/LF/CR/CRLF/VT/FF and comments: /*...*/ with bodies containing quotes, "
    "'=', ';', END, '#', brackets, newlines (never '/*' or '*/'); '#...LF' only for "
    "ISIS/ISISv/default and always preceded by white space. Optional positions "
    "(around '=', ',', brackets, ';', before units, document start/end) may be "
    "empty; required positions (between two word-like tokens) are non-empty. For "
    "OmniParser variants no token ends in '-' (documented dash continuation). "
    "Non-trivial = the two layouts differ; distinct by (dialect, layout texts)."
)
ASSUMPTIONS = [
    "a run consisting only of a comment is an admissible separator (the statement "
    "says 'white-space characters and comments')",
    "comment bodies never contain a comment delimiter",
]


@st.composite
def cases(draw, d):
    doc = draw(gt.documents(d, min_statements=1))
    s1 = draw(st.integers(0, 2 ** 32))
    s2 = draw(st.integers(0, 2 ** 32))
    texts = [gt.canonical_text(doc), gt.seeded_layout(doc, d, s1, "full"),
             gt.seeded_layout(doc, d, s2, "full")]
    return dict(dialect=d, texts=texts, ntokens=len(doc["tokens"]))


@st.composite
def gap_cases(draw, d):
    """Labels in which some parameters lack their value (loadable by the permissive
    variants, C08): white space and comments must not matter there either."""
    nodes = draw(st.lists(gt.stmt_nodes(d), min_size=2, max_size=5))
    n = gt.count_assignments(nodes)
    if n == 0:
        nodes = nodes + [("assign", "zz", [gt.T("1", "word", ("int", 1))], ("int", 1),
                          False)]
        n = 1
    gaps = frozenset(draw(st.lists(st.integers(0, n - 1), min_size=1, max_size=3)))
    toks, items, gap_eqs = gt.flatten_nodes(nodes, gaps)
    if draw(st.booleans()):
        toks = toks + [gt.T("END", "end")]
    doc = dict(tokens=toks, expected=None, tail="")
    s1 = draw(st.integers(0, 2 ** 32))
    s2 = draw(st.integers(0, 2 ** 32))
    texts = [gt.canonical_text(doc), gt.seeded_layout(doc, d, s1, "full"),
             gt.seeded_layout(doc, d, s2, "full")]
    return dict(dialect=d, texts=texts, ntokens=len(toks))


MIXED = {
    # (grammar the caller names, decoder class built with its own default grammar)
    "default+OmniDecoder()": ("default", "OmniDecoder"),
    "default+PVLDecoder()": ("default", "PVLDecoder"),
    "ISIS+OmniDecoder()": ("ISIS", "OmniDecoder"),
    "ISIS+PVLDecoder()": ("ISIS", "PVLDecoder"),
    "PVL+ODLDecoder()": ("PVL", "ODLDecoder"),
}


def mixed_parser(name):
    """pvl.loads(text, grammar=G(), decoder=D()) where D() keeps its own default
    grammar - the wiring a caller gets who passes both arguments."""
    import pvl.decoder
    import pvl.grammar
    from pvl.parser import OmniParser
    from vlib.budget import counting_lexer
    gname, dname = MIXED[name]
    g = {"default": pvl.grammar.OmniGrammar, "ISIS": pvl.grammar.ISISGrammar,
         "PVL": pvl.grammar.PVLGrammar}[gname]()
    return OmniParser(grammar=g, decoder=getattr(pvl.decoder, dname)(),
                      lexer_fn=counting_lexer())


def load(d, text):
    p = mixed_parser(d) if d in MIXED else budget_parser(d)
    try:
        m = p.parse(text)
    except BudgetExceeded:
        return ("spins", None)
    except Exception as e:
        return ("raises", f"{type(e).__name__}: {str(e)[:200]}")
    return ("ok", nm.canon(m))


def separator_features(text):
    f = []
    if "/*" in text:
        f.append("c-comment")
    if "#" in text:
        f.append("hash")
    for ch, nm_ in (("\x0b", "VT"), ("\x0c", "FF"), ("\r", "CR"), ("\t", "TAB")):
        if ch in text:
            f.append(nm_)
    return f


def run_case(case):
    d = case["dialect"]
    base = load(d, case["texts"][0])
    if base[0] != "ok":
        return ("skip", f"canonical layout does not load: {base}")
    for i, t in enumerate(case["texts"][1:], 1):
        r = load(d, t)
        if r[0] == "spins":
            return ("fail", f"C04/{d}/layout-spins", f"layout {i}: {t!r}")
        if r[0] == "raises":
            return ("fail", f"C04/{d}/layout-raises/{r[1].split(':')[0]}",
                    f"canonical loads, layout {i} raises {r[1]}; layout={t!r}; "
                    f"canonical={case['texts'][0]!r}")
        dd = nm.diff(base[1], r[1])
        if dd is not None:
            return ("fail", f"C04/{d}/layout-changes-meaning",
                    f"at {dd[0]}: canonical {dd[1]!r} layout {i} {dd[2]!r}; "
                    f"layout={t!r}; canonical={case['texts'][0]!r}")
    return ("ok", None)


def random_cases(acc, d, n, seed):
    @hseed(seed)
    @settings(max_examples=n, database=None, deadline=None,
              phases=[Phase.generate],
              suppress_health_check=list(HealthCheck))
    @given(st.integers(0, 4).flatmap(
        lambda k: gap_cases(d) if (k == 0 and d in ("default", "ISISv")) else cases(d)))
    def body(case):
        if acc.expired():
            acc.notes["budget_exhausted"] = 1
            return
        r = run_case(case)
        acc.event(f"{d}:{r[0]}")
        if r[0] == "skip":
            return
        nt = case["texts"][1] != case["texts"][2]
        acc.case(key=d + "\0" + case["texts"][1] + "\0" + case["texts"][2],
                 nontrivial=nt,
                 sample={"dialect": d, "layout1": case["texts"][1][:200],
                         "layout2": case["texts"][2][:200]} if nt else None, n=1)
        for f in separator_features(case["texts"][1] + case["texts"][2]):
            acc.event("sep:" + f)
        if r[0] == "fail":
            acc.fail(r[1], dict(dialect=d, texts=case["texts"]), r[2])

    body()


def mixed_cases(acc, name, n, seed):
    """The same metamorphic relation under a mixed grammar/decoder wiring; documents
    and comment syntax come from the grammar the caller names."""
    gd = MIXED[name][0]

    @hseed(seed)
    @settings(max_examples=n, database=None, deadline=None,
              phases=[Phase.generate],
              suppress_health_check=list(HealthCheck))
    @given(cases(gd))
    def body(case):
        if acc.expired():
            acc.notes["budget_exhausted"] = 1
            return
        case = dict(case, dialect=name)
        r = run_case(case)
        acc.event(f"{name}:{r[0]}")
        if r[0] == "skip":
            return
        nt = case["texts"][1] != case["texts"][2]
        acc.case(key=name + "\0" + case["texts"][1] + "\0" + case["texts"][2],
                 nontrivial=nt)
        if r[0] == "fail":
            acc.fail(r[1], dict(dialect=name, texts=case["texts"]), r[2])

    body()


# ------------------------------------------------------ the tests/data corpus
WS = " \t\r\n\x0b\x0c"
SINGLE = {"=": "eq", ",": "comma", "(": "open", "{": "open", ")": "close", "}": "close",
          ";": "semi"}


def corpus_tokens(text):
    """Own tokeniser for real labels (default grammar): comments are dropped, the text
    is cut after its END statement.  Returns gen_text tokens, or None when the text
    holds something this simple scanner does not want to judge (a word that ends in a
    dash, an unterminated lexeme)."""
    toks = []
    i, n = 0, len(text)
    while i < n:
        c = text[i]
        if c in WS:
            i += 1
        elif text.startswith("/*", i):
            j = text.find("*/", i + 2)
            if j < 0:
                return None
            i = j + 2
        elif c == "#" and (i == 0 or text[i - 1] in WS):
            j = text.find("\n", i)
            i = n if j < 0 else j + 1
        elif c in "\"'":
            j = text.find(c, i + 1)
            if j < 0:
                return None
            toks.append(gt.T(text[i:j + 1], "quoted"))
            i = j + 1
        elif c == "<":
            j = text.find(">", i + 1)
            if j < 0:
                return None
            toks.append(gt.T(text[i:j + 1], "units"))
            i = j + 1
        elif c in SINGLE:
            toks.append(gt.T(c, SINGLE[c]))
            i += 1
        else:
            j = i
            while j < n and text[j] not in WS and text[j] not in SINGLE and \
                    text[j] not in "\"'<" and not text.startswith("/*", j):
                j += 1
            if j == i:
                return None
            w = text[i:j]
            if w.endswith("-") or "\0" in w:
                return None
            if w.casefold() == "end":
                toks.append(gt.T(w, "end"))
                return toks
            toks.append(gt.T(w, "word"))
            i = j
    return toks


def corpus_files():
    import glob
    import os
    repo = os.environ.get("VERIF_REPO", "/repo")
    out = []
    for f in sorted(glob.glob(os.path.join(repo, "tests", "data", "**", "*"),
                              recursive=True)):
        if os.path.isfile(f) and os.path.getsize(f) < 40000:
            try:
                out.append((os.path.relpath(f, repo), open(f, encoding="utf-8",
                                                           newline="").read()))
            except (UnicodeDecodeError, OSError):
                pass
    return out


def corpus_cases(acc, part, parts, nlayouts, seed):
    """Every label under tests/data that loads: its tokens (own tokeniser) are laid out
    again *nlayouts* times; each layout must load to what the single-blank layout loads
    to.  The tokeniser is validated per file: the single-blank layout must load to what
    the file itself loads to, otherwise the file is not used (counted)."""
    import random
    files = corpus_files()
    for idx, (name, text) in enumerate(files):
        if idx % parts != part:
            continue
        orig = load("default", text)
        if orig[0] != "ok":
            acc.event("corpus:file-does-not-load")
            continue
        toks = corpus_tokens(text)
        if not toks:
            acc.event("corpus:not-tokenised")
            continue
        doc = dict(tokens=toks, expected=None, tail="")
        canon_text = gt.canonical_text(doc)
        base = load("default", canon_text)
        if base[0] != "ok" or nm.diff(orig[1], base[1]) is not None:
            acc.event("corpus:tokeniser-and-loader-disagree (file not used)")
            continue
        acc.event("corpus:files-used")
        rng = random.Random(seed * 7919 + idx)
        for k in range(nlayouts):
            if acc.expired():
                acc.notes["budget_exhausted"] = 1
                return
            lay = gt.seeded_layout(doc, "default", rng.randrange(2 ** 32),
                                   "full" if k % 3 else "light")
            case = dict(dialect="default", texts=[canon_text, lay])
            r = run_case(case)
            acc.event(f"corpus:{r[0]}")
            acc.case(key=name + "\0" + lay, nontrivial=True,
                     sample={"file": name, "layout": lay[:200]} if k == 1 else None)
            if r[0] == "fail":
                acc.fail(r[1], dict(dialect="default", texts=[canon_text, lay],
                                    file=name), r[2])


def bulk_gaps(acc, d):
    """One gap that holds very much: 1200 / 3000 comments in a row (a commented-out
    table, a licence header of '#' lines), 20 000 blanks or line ends, one 100 kB comment
    - before the first statement, between statements, inside a sequence and a group."""
    from vlib.dialects import HASH_COMMENT
    frames = [("{g}a = 1 b = 2 END", "a = 1 b = 2 END"),
              ("a = 1{g}b = 2 END", "a = 1 b = 2 END"),
              ("a = (1,{g}2) END", "a = (1, 2) END"),
              ("GROUP = g{g}x = 1 END_GROUP END", "GROUP = g x = 1 END_GROUP END"),
              ("a ={g}1 END", "a = 1 END")]
    for d in [d]:
        gaps = [" /* c */\n" * 1200, "/* c */" * 3000 + " ", " " * 20000, "\r\n" * 20000,
                " /*" + " x" * 50000 + "*/ ", " /* a */ \t" * 1500]
        if d in HASH_COMMENT:
            gaps += [" # c\n" * 1200, "\n#\n" * 3000]
        for frame, canonical in frames:
            for g in gaps:
                if acc.expired():
                    acc.notes["budget_exhausted"] = 1
                    return
                case = dict(dialect=d, texts=[canonical, frame.replace("{g}", g)],
                            ntokens=8)
                r = run_case(case)
                acc.event(f"bulk:{d}:{r[0]}")
                acc.case(key=d + frame + str(len(g)) + g[:12], nontrivial=True)
                if r[0] == "fail":
                    acc.fail(r[1], case, r[2][:600])


def shards(tier, seed):
    n = 260 if tier == "quick" else 7000
    out = [("random_cases", dict(d=PARSERS[j % 6], n=n, seed=seed * 1000 + j))
           for j in range(18)]
    for j, name in enumerate(MIXED):
        out.append(("mixed_cases", dict(name=name, n=n // 2, seed=seed * 1000 + 50 + j)))
    corpus = [("corpus_cases", dict(part=part, parts=8, seed=seed,
                                    nlayouts=3 if tier == "quick" else 150))
              for part in range(8)]
    return [("bulk_gaps", dict(d=d)) for d in PARSERS] + corpus + out


def replay(case):
    r = run_case(case)
    if r[0] == "fail":
        return (r[1], r[2])
    return None
