"""C03 - well-formed text decodes to the values the dialect grammar assigns.

Domain : abstract documents x permitted spellings (vlib.gen_text) x the six parser
         variants (PVL, ODL, PDS3, ISIS, ISISv, default).
Oracle : the expected tree is computed by the generator from the spelling rules of
         the specifications (int(digits, radix), float(numeral), folded strings for
         ODL-family decoders, zone rules), never by calling pvl.
"""
from hypothesis import given, seed as hseed, settings, HealthCheck, Phase
from hypothesis import strategies as st

from vlib import gen_text as gt
from vlib import normalise as nm
from vlib.budget import BudgetExceeded
from vlib.dialects import budget_parser, PARSERS
from vlib.shrink import shrink_seq

ID = "C03"
LEVEL = "exploration"
BUDGET = {"quick": 200, "thorough": 1200}
RULE = (
    "case = (parser variant, document text rendered from a generated token list; "
    "canonical single-blank layout or a random layout). Values: decimal/based "
    "integers in every permitted radix and sign position, reals with optional "
    "sign/fraction/exponent, quoted strings over the dialect character set, "
    "unquoted strings, NULL/TRUE/FALSE in any case, dates/times, nested "
    "sequences/sets, units, blocks with BEGIN_/plain keywords in any case, "
    "optional ';', optional '= name' on end statements, optional END + junk. "
    "Non-trivial = document has a based integer, signed/exponent real, nested "
    "sequence/set, units, block, or a quoted string with a reserved/comment/"
    "white-space character; distinct by text."
)
ASSUMPTIONS = [
    "the generator's spelling tables follow spec/odl_ch12_extract.txt and "
    "spec/pvl_bluebook_extract.txt; documented library deviations (NULL/TRUE/FALSE "
    "keywords, collapse-all-white-space folding, dash continuation in OmniParser) "
    "are taken as the oracle",
    "ISO 8601 look-alike unquoted strings are not generated (depends on dateutil)",
]


@st.composite
def bulk_documents(draw, d):
    """A long label: 1-3 generated statements plus a few tiny ones (empty sequence and
    set, a one-element sequence, a keyword) repeated 40-250 times, names repeating too
    (duplicates are kept).  Whatever a parser counts per statement, per bracket or per
    value has to come out right after hundreds of them."""
    T = gt.T
    small = draw(st.lists(gt.statements(d), min_size=1, max_size=3))
    tiny = [([T("E"), T("=", "eq"), T("(", "open"), T(")", "close")], ("E", ("seq", ()))),
            ([T("S"), T("=", "eq"), T("{", "open"), T("}", "close")],
             ("S", ("set", frozenset()))),
            ([T("O"), T("=", "eq"), T("(", "open"), T("1", "word", ("int", 1)),
              T(")", "close")], ("O", ("seq", (("int", 1),)))),
            ([T("N"), T("=", "eq"), T("NULL", "word", ("none",))], ("N", ("none",)))]
    if d in ("ODL", "PDS3"):
        tiny = tiny[2:]          # ODL has no empty sequences
    unit = small + draw(st.lists(st.sampled_from(tiny), min_size=1, max_size=4))
    k = draw(st.integers(40, 250))
    toks, items = [], []
    for _ in range(k):
        for t, item in unit:
            toks += t
            items.append(item)
            if len(toks) > 4000:
                break
        if len(toks) > 4000:
            break
    toks.append(T("END", "end"))
    return dict(tokens=toks, expected=("mod", tuple(items)), tail="")


@st.composite
def cases(draw, d):
    doc = draw(bulk_documents(d)) if draw(st.integers(0, 24)) == 0 else \
        draw(gt.documents(d))
    how = draw(st.integers(0, 5))
    if how < 3:
        text = gt.canonical_text(doc)
        layout = "canonical"
    elif how < 5:
        text = gt.seeded_layout(doc, d, draw(st.integers(0, 2 ** 32)), "light")
        layout = "light-whitespace"
    else:
        # well-formed text has comments too (C04 owns the layout space; here one
        # commented layout in six keeps the grammar positions honest)
        text = gt.seeded_layout(doc, d, draw(st.integers(0, 2 ** 32)), "full")
        layout = "with-comments"
    return dict(dialect=d, text=text, expected=doc["expected"], layout=layout,
                kinds=sorted({t[1] for t in doc["tokens"]}),
                feats=features(doc))


def features(doc):
    f = set()
    for text, kind, _val in doc["tokens"]:
        if kind == "word":
            if "#" in text:
                f.add("based-int")
            elif text[:1] in "+-" or (("e" in text.lower()) and text[:1].isdigit()):
                f.add("signed-or-exp")
        if kind == "units":
            f.add("units")
        if kind == "quoted" and any(c in text[1:-1] for c in " \t\n\r#/*=;(){}<>,&"):
            f.add("quoted-special")
        if kind == "open":
            f.add("aggregate")
    for k, v in doc["expected"][1]:
        if v[0] in ("grp", "obj"):
            f.add("block")
    return sorted(f)


def run_text(d, text, expected):
    """None or (signature, detail)."""
    p = budget_parser(d)
    try:
        m = p.parse(text)
    except BudgetExceeded:
        return (f"C03/{d}/spins", f"text={text!r}")
    except Exception as e:
        return (f"C03/{d}/load-raises/{type(e).__name__}",
                f"{type(e).__name__}: {str(e)[:300]}; text={text!r}")
    got = nm.canon(m)
    dd = nm.diff(expected, got)
    if dd is None:
        if d in ("ISISv", "default") and list(getattr(m, "errors", [])):
            return (f"C03/{d}/errors-not-empty", f"errors={m.errors}; text={text!r}")
        return None
    path, e, g = dd
    ek = e[0] if isinstance(e, tuple) and e and isinstance(e[0], str) else "item"
    gk = g[0] if isinstance(g, tuple) and g and isinstance(g[0], str) else "item"
    if path.endswith(".key"):
        ek = gk = "key"
    if e == "<nothing>":
        ek = "nothing"
    if g == "<nothing>":
        gk = "nothing"
    if ek not in KINDS:
        ek = "item"
    if gk not in KINDS:
        gk = "item"
    return (f"C03/{d}/diff/{ek}->{gk}",
            f"at {path}: expected {e!r} got {g!r}; text={text!r}")


KINDS = {"none", "bool", "int", "float", "str", "date", "time", "dt", "q", "seq",
         "set", "grp", "obj", "mod", "key", "nothing", "item"}


def tuplify(x):
    if isinstance(x, list):
        if len(x) == 2 and x[0] == "set" and isinstance(x[1], list):
            return ("set", frozenset(tuplify(i) for i in x[1]))
        return tuple(tuplify(i) for i in x)
    return x


def jsonable(x):
    if isinstance(x, frozenset):
        return sorted((jsonable(i) for i in x), key=repr)
    if isinstance(x, tuple):
        return [jsonable(i) for i in x]
    return x


def random_cases(acc, d, n, seed):
    @hseed(seed)
    @settings(max_examples=n, database=None, deadline=None,
              phases=[Phase.generate],
              suppress_health_check=list(HealthCheck))
    @given(cases(d))
    def body(case):
        if acc.expired():
            acc.notes["budget_exhausted"] = 1
            return
        r = run_text(d, case["text"], case["expected"])
        nt = bool(case["feats"])
        acc.case(key=d + "\0" + case["text"], nontrivial=nt,
                 sample={"dialect": d, "text": case["text"][:300]} if nt else None)
        acc.event(f"{d}:{'ok' if r is None else 'fail'}")
        acc.event("layout:" + case["layout"])
        for f in case["feats"]:
            acc.event("feat:" + f)
        if r is not None:
            acc.fail(r[0], dict(dialect=d, text=case["text"],
                                expected=jsonable(case["expected"])), r[1])

    body()


def shards(tier, seed):
    n = 300 if tier == "quick" else 8000
    out = []
    for j in range(18):
        d = PARSERS[j % 6]
        out.append(("random_cases", dict(d=d, n=n, seed=seed * 1000 + j)))
    return out


def replay(case):
    return run_text(case["dialect"], case["text"], tuplify(case["expected"]))
