"""C15 - strict dialects enforce their character set; the default accepts all.

(a) every one of the 1,114,112 code points x char_allowed() of the five grammars
    against the arithmetic predicate of the specifications;
(b) code points x 7 positions in a label (parameter name, unquoted value, quoted
    string, comment, units, between statements, after END) x {PVL, ODL, PDS3} strict
    parsers, the same grammars through pvl.loads(text, grammar=G()), and the default
    loader.  quick: code points 0..0x2FF, all range boundaries +-1, 1500 random;
    thorough: every code point.
Oracle (b): disallowed character before END -> LexerError e with
    e.doc == text, 0 <= e.pos <= index of the character,
    e.lineno == 1 + text.count("\\n", 0, e.pos),
    e.colno == e.pos - text.rfind("\\n", 0, e.pos);
    after END -> loads to the label's module; allowed character -> no character-set
    error; default grammar -> loads, and inside a quoted string the character comes
    back unchanged (white space modulo folding).
"""
import random

import pvl
from pvl.decoder import PVLDecoder, OmniDecoder
from pvl.grammar import (PVLGrammar, ODLGrammar, PDSGrammar, ISISGrammar,
                         OmniGrammar)

from vlib import normalise as nm
from vlib.budget import BudgetExceeded, counting_lexer
from vlib.dialects import budget_parser

ID = "C15"
LEVEL = "exploration"
BUDGET = {"quick": 300, "thorough": 1500}
RULE = (
    "(a) all 1,114,112 code points x 5 grammars (always complete); (b) (code point, "
    "position, configuration) triples over 24 basic label positions (among them the "
    "very first and the very last character of the text) plus every gap "
    "of a 38-token label that has each statement form (the character as its own "
    "token and glued to the preceding token; for code points < 0x100, 14 larger ones "
    "and every 997th): quick = code points 0..0x2FF, every range "
    "boundary +-2 (8/9, 13/14, 31/32, 126/127, 159/160, 255/256, 0xD7FF/0xD800, "
    "0xDFFF/0xE000, 0xFFFF/0x10000, 0x10FFFF) and 1500 random code points; thorough "
    "= every code point. Non-trivial = the character is disallowed by the grammar "
    "under test or is > 127; distinct by (configuration, position, code point)."
)
ASSUMPTIONS = [
    "permitted sets: PVL/ISIS = ISO 8859-1 without 0-8, 14-31, 127-159; ODL/PDS3 = "
    "code points < 128; default = everything",
    "'no character-set error' is recognised by the LexerError message "
    "'is not allowed by the grammar'",
]


def EXHAUSTIVE(tier):
    return tier == "thorough"


def allowed(name, o):
    if name in ("PVL", "ISIS"):
        return not (o > 255 or o <= 8 or 14 <= o <= 31 or 127 <= o <= 159)
    if name in ("ODL", "PDS3"):
        return o < 128
    return True


GRAMMARS = {"PVL": PVLGrammar, "ODL": ODLGrammar, "PDS3": PDSGrammar,
            "ISIS": ISISGrammar, "default": OmniGrammar}


def table(acc, lo, hi):
    gs = {k: v() for k, v in GRAMMARS.items()}
    for o in range(lo, hi):
        c = chr(o)
        for name, g in gs.items():
            try:
                got = bool(g.char_allowed(c))
            except Exception as e:
                acc.fail(f"C15/table/{name}/raises",
                         dict(kind="table", grammar=name, cp=o), repr(e))
                continue
            want = allowed(name, o)
            if got != want:
                acc.fail(f"C15/table/{name}", dict(kind="table", grammar=name, cp=o),
                         f"char_allowed(U+{o:04X}) is {got}, specification says "
                         f"{want}")
        acc.case(key=f"t{o}", nontrivial=o > 127 or not allowed("PVL", o), n=5)
    acc.event("table_codepoints", hi - lo)


HEAD = "x = 0\n  "
POSITIONS = {
    "name": lambda c: HEAD + f"a{c}b = 1\nEND\n",
    "unquoted": lambda c: HEAD + f"k = a{c}b\nEND\n",
    "quoted": lambda c: HEAD + f'k = "a{c}b"\nEND\n',
    "quoted-first": lambda c: HEAD + f'k = "{c}ab"\nEND\n',
    "quoted-last": lambda c: HEAD + f'k = "ab{c}"\nEND\n',
    "quoted-only": lambda c: HEAD + f'k = "{c}"\nEND\n',
    "comment": lambda c: HEAD + f"/* a{c}b */\nk = 1\nEND\n",
    "units": lambda c: HEAD + f"k = 1 <a{c}b>\nEND\n",
    "between": lambda c: HEAD + f"k = 1\n {c}\nj = 2\nEND\n",
    "after-END": lambda c: HEAD + f"k = 1\nEND\n{c} trailing",
    # glued to a comment (no white space in between)
    "glued-after-comment": lambda c: HEAD + f"/* c */{c}b = 1\nEND\n",
    "glued-after-comment-value": lambda c: HEAD + f"k = /* c */{c}\nj = 2\nEND\n",
    "glued-before-comment": lambda c: HEAD + f"k = 1{c}/* c */\nEND\n",
    # swallowed by a dash continuation?  (default loader machinery, strict grammar)
    "after-dash-continuation": lambda c: HEAD + f"k = b-\n{c} c = 1\nEND\n",
    "after-END-glued": lambda c: HEAD + f"k = 1\nEND{c} trailing",
    "lone-line-end": lambda c: HEAD + f"k = 1 {c}\nEND\n",
    # inside a lexeme that spans lines, on a later line than its first character
    "quoted-2nd-line": lambda c: HEAD + f'k = "first line\n  second {c} line"\nEND\n',
    "comment-3rd-line": lambda c: HEAD + f"/* one\n two\n three {c} */\nk = 1\nEND\n",
    "units-2nd-line": lambda c: HEAD + f"k = 1 <a\n{c}b>\nEND\n",
    # the very first and the very last character of the text (nothing before / after)
    "start-glued": lambda c: f"{c}a = 1\nEND\n",
    "start-own-line": lambda c: f"{c}\na = 1\nEND\n",
    "start-before-comment": lambda c: f"{c}/* c */\na = 1\nEND\n",
    "end-of-text": lambda c: HEAD + f"k = 1\n{c}",
    "end-of-text-glued": lambda c: HEAD + f"k = a{c}",
    # dash continuations on both sides of the character: an error position has to be
    # mapped back over the ones before it only (pvl.loads with a strict grammar)
    # a carriage return that is not followed by a line feed somewhere before the
    # character: whatever a line is taken to be, lineno and colno must mean the same
    "after-lone-CR": lambda c: HEAD + f"k = 1\rj = a{c}b\nEND\n",
    "CR-only-lines": lambda c: f"x = 0\r  k = 1\rj = a{c}b\rEND\r",
    "CR-as-white-space": lambda c: HEAD + f"k =\r1 j\r=\ra{c}b\nEND\n",
    "between-continuations": lambda c: HEAD + f'k = "ab-\n cd"\nq = a{c}b\nr = "ef-\n gh"\nEND\n',
    "between-many-continuations": lambda c: HEAD + (
        f'k = "a-\n      b-\n      c-\n      d"\nq = {c}\nr = "x-\n y"\ns = "z-\n   w"\nEND\n'),
    "between-continuations-close": lambda c: HEAD + (
        f'k = "a-\n              b" q = {c} r = "x-\n y" s = "p-\n q"\nEND\n'),
}
# every gap of a small label that exercises each statement form: the character as a
# token of its own ("gapNN") and glued to the end of the preceding token ("glueNN")
GAP_TOKENS = ["x", "=", "0", "OBJECT", "=", "o", "k", "=", "(", "1", ",", "'q'", ")",
              "GROUP", "=", "g", "j", "=", "2", "<m>", ";", "END_GROUP", "u", "=", "3",
              "END_GROUP", "=", "g", "z", "=", "{", "a", "}", "END_OBJECT", "END"]
GAP_TOKENS[21] = "END_GROUP"          # bare end keyword (no '= name')
GAP_TOKENS[22:25] = ["GROUP", "=", "h", "u", "=", "3"]


def _gap_text(i, c, glue):
    toks = list(GAP_TOKENS)
    if glue:
        left = " ".join(toks[:i]) + c
    else:
        left = " ".join(toks[:i]) + " " + c
    return HEAD + left + " " + " ".join(toks[i:]) + "\n"


for _i in range(1, len(GAP_TOKENS)):
    POSITIONS[f"gap{_i:02d}"] = (lambda c, _i=_i: _gap_text(_i, c, False))
    POSITIONS[f"glue{_i:02d}"] = (lambda c, _i=_i: _gap_text(_i, c, True))
QUOTED_SHAPES = {"quoted": "a{}b", "quoted-first": "{}ab", "quoted-last": "ab{}",
                 "quoted-only": "{}"}
BASIC_SET = {"name", "unquoted", "quoted", "quoted-first", "quoted-last", "quoted-only",
             "after-END-glued", "glued-after-comment", "glued-after-comment-value",
             "glued-before-comment", "after-dash-continuation", "comment", "units", "between", "after-END",
             "lone-line-end", "quoted-2nd-line", "comment-3rd-line", "units-2nd-line",
             "start-glued", "start-own-line", "start-before-comment", "end-of-text",
             "end-of-text-glued", "between-continuations", "between-many-continuations",
             "between-continuations-close", "after-lone-CR", "CR-only-lines",
             "CR-as-white-space"}
GAP_EXTRA = {0x100, 0x17F, 0x3B1, 0x2028, 0x20AC, 0xD7FF, 0xD800, 0xDFFF, 0xE000, 0xFEFF,
             0xFFFF, 0x10000, 0x1F600, 0x10FFFF}
BASIC_POSITIONS = [k for k in POSITIONS if not k.startswith(("gap", "glue"))]
CONFIGS = ["PVL", "ODL", "PDS3", "PVL-loads", "ODL-loads", "PDS3-loads", "default"]
# a strict grammar together with a decoder that was built around a grammar with a larger
# character set (how a caller chooses real_cls / quantity_cls): the grammar= argument
# decides what the text may contain
MIXED = {
    "ODL-loads+PVLDecoder": lambda: dict(grammar=ODLGrammar(),
                                         decoder=PVLDecoder(grammar=PVLGrammar())),
    "ODL-loads+OmniDecoder": lambda: dict(grammar=ODLGrammar(),
                                          decoder=OmniDecoder(grammar=OmniGrammar())),
    "PDS3-loads+OmniDecoder": lambda: dict(grammar=PDSGrammar(),
                                           decoder=OmniDecoder(grammar=OmniGrammar())),
    "PVL-loads+OmniDecoder": lambda: dict(grammar=PVLGrammar(),
                                          decoder=OmniDecoder(grammar=OmniGrammar())),
}


def run_load(cfg, text):
    lf = counting_lexer()
    if cfg == "default":
        return pvl.loads(text, lexer_fn=lf)
    if cfg in MIXED:
        return pvl.loads(text, lexer_fn=lf, **MIXED[cfg]())
    if cfg.endswith("-loads"):
        return pvl.loads(text, grammar=GRAMMARS[cfg[:-6]](), lexer_fn=lf)
    return budget_parser(cfg).parse(text)


def check_one(cfg, posname, o):
    """None or (signature, detail)."""
    c = chr(o)
    text = POSITIONS[posname](c)
    if posname.startswith("start-"):
        idx = 0
    elif posname == "CR-only-lines":
        idx = text.index(c, 6) if c in text[6:] else None
    else:
        idx = text.index(c, len(HEAD)) if c in text[len(HEAD):] else None
    gname = cfg.split("-")[0]
    ok_char = allowed(gname, o)
    if posname == "after-END-glued":
        if ok_char:
            return None     # 'END' + a character of the set is another word, not END
        posname = "after-END"
    try:
        m = run_load(cfg, text)
        outcome = ("module", m)
    except BudgetExceeded:
        return (f"C15/{cfg}/spins", f"U+{o:04X} at {posname}: {text!r}")
    except Exception as e:
        outcome = ("raised", e)
    if not ok_char and posname != "after-END":
        if outcome[0] == "module":
            return (f"C15/{gname}/disallowed-accepted/{posname}",
                    f"{cfg}: U+{o:04X} in {posname} position was accepted: "
                    f"{text!r} -> {list(outcome[1])!r}")
        e = outcome[1]
        if type(e).__name__ != "LexerError":
            return (f"C15/{gname}/wrong-exception/{type(e).__name__}",
                    f"{cfg}: U+{o:04X} in {posname}: {e!r}")
        doc = e.doc
        if doc != text:
            return (f"C15/{gname}/error-doc-differs",
                    f"{cfg}: e.doc != text for U+{o:04X} in {posname}")
        if not (0 <= e.pos <= idx):
            return (f"C15/{gname}/error-pos-past-character",
                    f"{cfg}: U+{o:04X} in {posname} at index {idx}, e.pos={e.pos}; "
                    f"text={text!r}")
        # lines end at LF (what the library counts) - or, consistently for both
        # attributes, at CR LF / CR / LF
        import re as _re
        ends = [mm.end() for mm in _re.finditer(r"\r\n|\r|\n", text[:e.pos])]
        conventions = [
            (1 + text.count("\n", 0, e.pos), e.pos - text.rfind("\n", 0, e.pos)),
            (1 + len(ends), e.pos - (ends[-1] - 1 if ends else -1)),
        ]
        if (e.lineno, e.colno) not in conventions:
            which = "lineno" if e.lineno not in (c[0] for c in conventions) else "colno"
            return (f"C15/{gname}/error-{which}",
                    f"{cfg}: U+{o:04X} in {posname}: pos {e.pos} is line/column "
                    f"{conventions[0]} (lines end at LF) or {conventions[1]} (at CR LF, "
                    f"CR or LF), reported: ({e.lineno}, {e.colno}); text={text!r}")
        return None
    if posname == "after-END":
        if outcome[0] != "module":
            return (f"C15/{gname}/after-END-matters",
                    f"{cfg}: U+{o:04X} after END: {outcome[1]!r}")
        got = nm.canon(outcome[1])
        want = ("mod", (("x", ("int", 0)), ("k", ("int", 1))))
        if got != want:
            return (f"C15/{gname}/after-END-matters",
                    f"{cfg}: U+{o:04X} after END changed the module: {got!r}")
        return None
    # allowed character: no character-set complaint
    if outcome[0] == "raised":
        e = outcome[1]
        if type(e).__name__ not in ("LexerError", "ParseError"):
            return (f"C15/{gname}/foreign-exception/{type(e).__name__}",
                    f"{cfg}: U+{o:04X} in {posname}: {e!r}")
        if "is not allowed by the grammar" in str(e):
            return (f"C15/{gname}/allowed-rejected/{posname}",
                    f"{cfg}: U+{o:04X} is in the character set but was rejected "
                    f"in {posname} position")
        if cfg == "default" and posname in ("quoted", "quoted-first", "quoted-last",
                                            "quoted-only", "comment",
                                            "quoted-2nd-line",
                                            "comment-3rd-line") and c != '"':
            return (f"C15/default/rejected/{posname}",
                    f"default loader failed for U+{o:04X} in {posname}: {e!r}")
        return None
    if posname in QUOTED_SHAPES and c != '"' and cfg not in MIXED:  # (one-line templates)
        m = outcome[1]
        n = nm.Norm(folding=cfg in ("ODL", "PDS3", "default") or cfg.endswith("-loads"),
                    omni=cfg == "default" or cfg.endswith("-loads"))
        want = n.string(QUOTED_SHAPES[posname].format(c))
        try:
            got = m["k"]
        except Exception:
            got = None
        if got != want:
            return (f"C15/{gname}/quoted-character-changed",
                    f"{cfg}: U+{o:04X} inside a quoted string came back as "
                    f"{got!r}, expected {want!r}")
    return None


def codepoints_quick(seed):
    cps = set(range(0, 0x300))
    for b in (8, 9, 13, 14, 31, 32, 126, 127, 159, 160, 255, 256, 0xD7FF, 0xD800,
              0xDFFF, 0xE000, 0xFFFF, 0x10000, 0x10FFFF, 0x2028, 0x2029, 0x85,
              0xA0, 0x3000, 0xFEFF):
        for dlt in (-2, -1, 0, 1, 2):
            if 0 <= b + dlt <= 0x10FFFF:
                cps.add(b + dlt)
    rng = random.Random(seed)        # pure function of VERIF_SEED
    cps.update(rng.randrange(0x110000) for _ in range(1500))
    # the range boundaries and the larger code points first: if a busy machine makes a
    # shard run out of its budget, what is left over are ordinary characters below 0x300
    return sorted(cps, key=lambda o: (o < 0x300, o))


def positioned(acc, cps=None, lo=None, hi=None, all_gaps=True):
    if cps is None:
        cps = range(lo, hi)
    for o in cps:
        if acc.expired():
            acc.notes["budget_exhausted"] = 1
            return
        names = POSITIONS if ((all_gaps and (o < 0x100 or o in GAP_EXTRA))
                              or o % 997 == 0) else BASIC_POSITIONS
        for cfg in CONFIGS:
            gname = cfg.split("-")[0]
            for posname in names:
                if posname not in BASIC_SET and allowed(gname, o) and o % 16:
                    continue        # gap positions matter for disallowed characters
                r = check_one(cfg, posname, o)
                nt = (not allowed(gname, o)) or o > 127
                acc.case(key=f"{cfg}|{posname}|{o}", nontrivial=nt,
                         sample={"config": cfg, "position": posname,
                                 "codepoint": f"U+{o:04X}"}
                         if nt and o in (0x7F, 0xE9, 0x3B1) and posname == "quoted"
                         else None)
                if r is not None:
                    acc.fail(r[0], dict(kind="pos", config=cfg, position=posname,
                                        cp=o), r[1])
        acc.event("positioned_codepoints")


def mixed_wiring(acc, cps):
    for o in cps:
        if acc.expired():
            acc.notes["budget_exhausted"] = 1
            return
        for cfg in MIXED:
            gname = cfg.split("-")[0]
            for posname in BASIC_POSITIONS:
                r = check_one(cfg, posname, o)
                nt = (not allowed(gname, o)) or o > 127
                acc.case(key=f"{cfg}|{posname}|{o}", nontrivial=nt)
                if r is not None:
                    acc.fail(r[0].replace("C15/", "C15/grammar-and-decoder/", 1),
                             dict(kind="pos", config=cfg, position=posname, cp=o), r[1])
        acc.event("mixed_codepoints")


def check_stream(case):
    """None or (signature, detail): a label handed over as bytes with the character at
    byte 8192*k + delta."""
    import io
    import os
    import shutil
    o, k, delta, g, way = case["cp"], case["k"], case["delta"], case["grammar"], case["way"]
    tail = bytes.fromhex(case["tail"])
    c = chr(o)
    stmt = f'k = "a{c}b"\nj = 2\nEND\n'
    head = "x = 0\n/* "
    fill = 8192 * k + delta - len((head + " */\n" + 'k = "a').encode())
    text = head + "p" * fill + " */\n" + stmt
    assert len(text[:text.index(c)].encode()) == 8192 * k + delta
    data = text.encode("utf-8") + tail
    lf = counting_lexer()
    d = os.path.join(os.path.dirname(os.path.dirname(os.path.abspath(__file__))),
                     ".work", f"c15-{os.getpid()}")
    try:
        if way == "path":
            os.makedirs(d, exist_ok=True)
            pth = os.path.join(d, "f.img")
            with open(pth, "wb") as f:
                f.write(data)
            m = pvl.load(pth, grammar=GRAMMARS[g](), lexer_fn=lf)
        else:
            m = pvl.load(io.BytesIO(data), grammar=GRAMMARS[g](), lexer_fn=lf)
        out = ("module", m)
    except BudgetExceeded:
        out = ("spins", None)
    except Exception as e:
        out = ("raised", e)
    finally:
        shutil.rmtree(d, ignore_errors=True)
    ok = allowed(g, o)
    why = None
    if out[0] == "spins":
        why = ("spins", "token budget exceeded")
    elif not ok and out[0] == "module":
        why = ("disallowed-accepted",
               f"U+{o:04X} at byte {8192 * k + delta} of a {way} was accepted under "
               f"{g}: k = {out[1].get('k')!r}")
    elif not ok and type(out[1]).__name__ != "LexerError":
        why = ("wrong-exception", repr(out[1]))
    elif ok and out[0] == "raised":
        why = ("allowed-rejected", repr(out[1]))
    elif ok and out[1].get("k") != f"a{c}b":
        why = ("character-changed", f"k = {out[1].get('k')!r}, expected 'a{c}b'")
    if why:
        return (f"C15/stream/{g}/{why[0]}", why[1])
    return None


def via_streams(acc, cps):
    """The same clause through the other entry points: the label arrives as bytes
    (binary stream, or a file with image data behind it) and the character sits at,
    before or across a multiple of 8192 bytes - the size of the blocks files are read
    in."""
    for o in cps:
        try:
            nb = len(chr(o).encode("utf-8"))
        except UnicodeEncodeError:
            continue
        for k in (1, 2):
            for delta in range(-nb, 2):
                for tail in (b"", b"\xff\xfe\x00", b"\n" + b"\x80" * 9000):
                    for g in ("PVL", "ODL", "PDS3"):
                        for way in ("binary-stream", "path"):
                            if acc.expired():
                                acc.notes["budget_exhausted"] = 1
                                return
                            case = dict(kind="stream", grammar=g, way=way, cp=o, k=k,
                                        delta=delta, tail=tail.hex())
                            r = check_stream(case)
                            acc.case(key=repr(case), nontrivial=not allowed(g, o))
                            acc.event("stream-loads")
                            if r is not None:
                                acc.fail(r[0], case, r[1])


def shards(tier, seed):
    out = []
    out.append(("via_streams", dict(cps=[0xB5, 0xE9, 0x7F, 0x80, 0xFF])))
    out.append(("via_streams", dict(cps=[0x100, 0x20AC, 0xFEFF, 0x1F600, 0x41])))
    mix = [o for o in codepoints_quick(seed) if o >= 0x300 or o % 4 == 0 or
           o in (8, 9, 13, 14, 31, 127, 128, 159, 160, 255)]
    if tier == "quick":
        mix = mix[:400]
    for i in range(8):
        out.append(("mixed_wiring", dict(cps=mix[i::8])))
    step = 0x110000 // 32
    for lo in range(0, 0x110000, step):
        out.append(("table", dict(lo=lo, hi=min(0x110000, lo + step))))
    if tier == "quick":
        cps = codepoints_quick(seed)
        for i in range(48):              # round-robin: the low code points are costly
            out.append(("positioned", dict(cps=cps[i::48])))
    else:
        step = 0x110000 // 512
        for lo in range(0, 0x110000, step):
            out.append(("positioned", dict(lo=lo, hi=min(0x110000, lo + step),
                                           all_gaps=False)))
        cps = codepoints_quick(seed)
        for i in range(48):
            out.append(("positioned", dict(cps=cps[i::48])))
    return out


def replay(case):
    if case["kind"] == "stream":
        return check_stream(case)
    if case["kind"] == "table":
        g = GRAMMARS[case["grammar"]]()
        got = bool(g.char_allowed(chr(case["cp"])))
        want = allowed(case["grammar"], case["cp"])
        if got != want:
            return (f"C15/table/{case['grammar']}",
                    f"char_allowed(U+{case['cp']:04X}) is {got}, want {want}")
        return None
    return check_one(case["config"], case["position"], case["cp"])
