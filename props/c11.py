"""C11 - copies of a container are equal, independent and leave the original intact.

Domain : nested containers (four classes, duplicate keys, list values) x copy
         mechanism {m.copy(), copy.copy, copy.deepcopy, pickle protocols 0-5} x a
         follow-up mutation history applied to the copy or to the original, at the
         top level or (deep kinds) at a nested container / nested list.
Oracle : harness snapshot (recursive list of pairs + class names) of the original
         before == after copying; copy == original, same snapshot (classes at every
         level), C10 accessor invariant holds on the copy; after every mutation of
         one side the other side's snapshot is unchanged.
"""
import copy
import pickle
import warnings

from hypothesis import given, seed as hseed, settings, HealthCheck, Phase
from hypothesis import strategies as st

from props import c10
from vlib.shrink import shrink_seq

ID = "C11"
LEVEL = "exploration"
BUDGET = {"quick": 200, "thorough": 1200}
RULE = (
    "case = (container spec nested <= 3 with duplicate keys and list values, each "
    "container optionally put through 1-5 C10 operations before the copy, copy "
    "kind in {copy(), copy.copy, deepcopy, pickle0..5}, side mutated, path of the "
    "mutated container, mutation history of C10 operations). Non-trivial = the "
    "container has a duplicate key or a nested container and >= 1 mutation "
    "follows the copy; distinct by the whole case."
)
ASSUMPTIONS = [
    "shallow kinds (copy(), copy.copy) are only required to be independent at "
    "the top level; deep kinds (deepcopy, pickle) at every level",
    "snapshot compares scalars by type and repr",
]

KINDS = ["copy()", "copy.copy", "deepcopy"] + [f"pickle{p}" for p in range(6)]
DEEP = set(KINDS[2:])


# labels whose values are what the loaders themselves make (times with zone offsets,
# placeholders for missing values, quantities, sets, nested blocks ...)
LOADED_TEXTS = [
    "start = 01:12:22+07\nstop = 1990-07-04T12:00:00-03:30\nEND\n",
    "t = 12:00Z\nu = 2001-001T01:10:39.5Z\nv = 10:54:12-3\nEND\n",
    "a =\nb = 2\nGROUP = g\n  c =\n  d = (1, 2) <m>\nEND_GROUP\nEND\n",
    "OBJECT = o\n  GROUP = g\n    k = {A, B}\n    t = 23:59:60+01:30\n  END_GROUP\n"
    "  q = 5.5 <km/s>\nEND_OBJECT\nx = 16#FF#\nx = 'sym'\nx = \"two words\"\nEND\n",
    "a = 1.50\nb = -2#101#\nc = NULL\nd = TRUE\ne = 2001-01-01\nf = ((1, 2), (3))\nEND\n",
    "Object = IsisCube\n  Group = Core\n    StartByte = 65537 <bytes>\n"
    "    Time = 2008-01-01T12:00:00.123+00:00\n  End_Group\nEnd_Object\nEnd\n",
]
LOADERS = ["default", "default-decimal", "ODL", "PVL", "ISISv"]


def load_text(spec):
    import pvl
    from decimal import Decimal
    from vlib.dialects import make_parser
    text = LOADED_TEXTS[spec["text"] % len(LOADED_TEXTS)] if isinstance(
        spec["text"], int) else spec["text"]
    how = spec["loader"]
    if how == "default":
        return pvl.loads(text)
    if how == "default-decimal":
        return pvl.loads(text, real_cls=Decimal)
    return make_parser(how).parse(text)


def build(spec):
    if "text" in spec:
        return load_text(spec)
    cls = c10.classes()[spec["c"]]
    m = cls([(k, build_value(v)) for k, v in spec["items"]])
    # a history of C10 operations before the copy is taken: the container is then in
    # whatever internal state inserts, deletions, pops ... leave behind, not in the
    # state the constructor produces
    for op in spec.get("pre") or []:
        try:
            c10.apply_real(m, tuple(c10._norm(op)), cls)
        except Exception:
            pass
    # plain dict values (every encoder writes a mapping as a block) put in by assignment
    # to an existing key or by insert - the ways that do not go through append()
    for mode, idx, key in spec.get("inject") or []:
        try:
            dv = {"x": 1, "y": [1, 2]}
            if mode == "set" and len(m):
                m[list(m.keys())[idx % len(m)]] = dv
            elif mode == "insert":
                m.insert(idx % (len(m) + 1), key, dv)
            elif mode == "append":
                m.append(key, dv)
            elif mode == "before" and len(m):
                m.insert_before(list(m.keys())[idx % len(m)], (key, dv))
        except Exception:
            pass
    if spec.get("attr"):
        # an extra instance attribute, as every module from pvl.loads() has (.errors)
        m.errors = [3]
        m.note = "x"
    return m


def build_value(v):
    if isinstance(v, dict):
        if "c" in v:
            return build(v)
        if "l" in v:
            return [build_value(x) for x in v["l"]]
        if "E" in v:
            # the placeholder the default loader puts where a value is missing (a str
            # subclass that carries a line number)
            from pvl.parser import EmptyValueAtLine
            return EmptyValueAtLine(v["E"])
        if "S" in v:
            # a mutable Python set, as ODLParser returns for {...}
            return set(v["S"])
        if "q" in v:
            # a value with units whose value is a sequence: a = (1, 2) <m>
            from pvl.collections import Quantity
            return Quantity([build_value(x) for x in v["q"]], "m")
        return v["s"]
    return v


def snap(x):
    """Both views: the ordered pairs and, per key, what the mapping view reports."""
    from pvl.collections import OrderedMultiDict
    if isinstance(x, OrderedMultiDict):
        pairs = [(k, snap(v)) for k, v in list(x)]
        mapping = []
        for k in dict.fromkeys(k for k, _ in pairs):
            try:
                mapping.append((k, [snap(v) for v in x.getall(k)], snap(x[k])))
            except Exception as e:
                mapping.append((k, type(e).__name__))
        return ("C", type(x).__name__, pairs, mapping, len(x))
    if isinstance(x, dict):
        return ("D", type(x).__name__, [(k, snap(v)) for k, v in x.items()])
    if isinstance(x, list):
        return ("L", [snap(i) for i in x])
    if isinstance(x, tuple) and hasattr(x, "units"):
        return ("Q", type(x).__name__, snap(x.value), snap(x.units))
    if isinstance(x, (set, frozenset)):
        return ("S", type(x).__name__, sorted(repr(i) for i in x))
    if hasattr(x, "lineno"):
        return ("V", type(x).__name__, repr(x), x.lineno)
    return ("V", type(x).__name__, repr(x))


def do_copy(m, kind):
    if kind == "copy()":
        return m.copy()
    if kind == "copy.copy":
        return copy.copy(m)
    if kind == "deepcopy":
        return copy.deepcopy(m)
    p = int(kind[-1])
    return pickle.loads(pickle.dumps(m, p))


def walk(x, path):
    for i in path:
        if isinstance(x, list):
            x = x[i]
        else:
            x = x[i][1]
        if isinstance(x, tuple) and hasattr(x, "units"):
            x = x.value          # the list inside a value with units
    return x


def container_paths(spec, prefix=()):
    """Paths (index lists) of nested containers and lists inside spec."""
    out = []
    if "text" in spec:
        return out
    for i, (k, v) in enumerate(spec["items"]):
        if isinstance(v, dict) and "c" in v:
            out.append((prefix + (i,), "c"))
            out += container_paths(v, prefix + (i,))
        elif isinstance(v, dict) and ("l" in v or "q" in v or "S" in v):
            out.append((prefix + (i,), "l"))
    return out


def run_case(case):
    with warnings.catch_warnings():
        warnings.simplefilter("ignore")
        return _run_case(case)


def _run_case(case):
    kind = case["kind"]
    m = build(case["spec"])
    cls = type(m)
    before = snap(m)
    try:
        c = do_copy(m, kind)
    except Exception as e:
        return (f"C11/{kind_family(kind)}/raises",
                f"{kind} raised {type(e).__name__}: {e}")
    if snap(m) != before:
        return (f"C11/{kind_family(kind)}/original-damaged",
                f"{kind}: original changed from {before!r} to {snap(m)!r}")
    if type(c) is not cls:
        return (f"C11/{kind_family(kind)}/class",
                f"{kind}: copy is {type(c).__name__}, original {cls.__name__}")
    try:
        sc = snap(c)
    except Exception as e:
        return (f"C11/{kind_family(kind)}/copy-broken",
                f"{kind}: walking the copy raised {type(e).__name__}: {e}")
    if sc != before:
        return (f"C11/{kind_family(kind)}/content",
                f"{kind}: copy {sc!r} != original {before!r}")
    if not (c == m) or (c != m) or not (m == c):
        return (f"C11/{kind_family(kind)}/not-equal",
                f"{kind}: copy compares unequal to the original")
    why = c10.check_views(c, list(m), cls)
    if why is not None:
        return (f"C11/{kind_family(kind)}/views",
                f"{kind}: accessor invariant fails on the copy: {why}")
    if c is m:
        return (f"C11/{kind_family(kind)}/identity", f"{kind} returned the original")

    # follow-up mutations
    mutated, other = (c, m) if case["side"] == "copy" else (m, c)
    path = tuple(case["path"])
    if path and kind not in DEEP:
        path = ()
    try:
        target = walk(mutated, path)
    except Exception:
        target = mutated
        path = ()
    for step, op in enumerate(case["history"]):
        op = tuple(c10._norm(op))
        if isinstance(target, list):
            target.append(("mut", step))
        elif isinstance(target, set):
            target.add(("mut", step))
        else:
            try:
                c10.apply_real(target, op, type(target))
            except Exception:
                pass
        # first every accessor of the side that was just changed (whatever it computes
        # lazily is computed now, from its own pairs) ...
        try:
            c10.check_views(mutated, list(mutated), type(mutated))
        except Exception:
            pass
        # ... then the other side, which nothing has touched
        why = c10.check_views(other, list(other), type(other))
        if why is not None:
            return (f"C11/{kind_family(kind)}/aliasing-views",
                    f"{kind}: after mutating the {case['side']} with {op!r} the other "
                    f"side's views disagree: {why}")
        if snap(other) != before:
            lvl = "top" if not path else "nested"
            return (f"C11/{kind_family(kind)}/aliasing-{lvl}",
                    f"{kind}: mutating the {case['side']} at path {list(path)} "
                    f"with {op!r} changed the other side to {snap(other)!r}")
    return None


def kind_family(kind):
    return "pickle" if kind.startswith("pickle") else kind


def nontrivial(case):
    if "text" in case["spec"]:
        return True
    items = case["spec"]["items"]
    ks = [k for k, _ in items]
    nested = any(isinstance(v, dict) and "c" in v for _, v in items)
    return (len(ks) != len(set(ks)) or nested) and len(case["history"]) >= 1


def spec_strategy():
    key = st.sampled_from(["a", "b", "c", "d"])
    scalar = st.one_of(st.integers(0, 3), st.sampled_from(["s", None, 1.5, True]),
                       st.integers(0, 9).flatmap(
                           lambda k: st.just({"E": k + 1}) if k < 2 else st.integers(0, 3)))
    lst = st.one_of(st.lists(scalar, max_size=3).map(lambda l: {"l": l}),
                    st.lists(scalar, max_size=3).map(lambda l: {"l": l}),
                    st.lists(st.integers(0, 3), max_size=3).map(lambda l: {"q": l}),
                    st.lists(st.integers(0, 3), max_size=3).map(lambda l: {"S": l}))
    clsname = st.sampled_from(["OrderedMultiDict", "PVLModule", "PVLGroup",
                               "PVLObject"])

    pre = st.one_of(st.just([]), st.lists(c10.op_strategy(), min_size=1, max_size=5).map(
        lambda l: [list(o) for o in l]))

    def container(children):
        return st.builds(
            lambda c, items, attr, pre: {"c": c, "items": items, "attr": attr,
                                         "pre": pre},
            clsname, st.lists(st.tuples(key, children), max_size=5), st.booleans(), pre)

    leaf = st.one_of(scalar, lst)
    value = st.recursive(leaf, lambda ch: st.one_of(leaf, container(ch)),
                         max_leaves=12)
    inject = st.one_of(st.just([]), st.just([]), st.lists(st.tuples(
        st.sampled_from(["set", "insert", "append", "before"]), st.integers(0, 6), key),
        min_size=1, max_size=2).map(lambda l: [list(t) for t in l]))
    # one container in eight is big (30-70 pairs over the same few keys: many repeats,
    # adjacent and not) - whatever is done differently above some size has to agree
    big = st.lists(st.tuples(key, scalar), min_size=30, max_size=70)
    items = st.integers(0, 7).flatmap(
        lambda k: big if k == 0 else st.lists(st.tuples(key, value), max_size=7))
    return st.builds(lambda c, items, attr, pre, inject: {
        "c": c, "items": items, "attr": attr, "pre": pre, "inject": inject},
        clsname, items, st.booleans(), pre, inject)


@st.composite
def case_strategy(draw):
    spec = draw(spec_strategy())
    kind = draw(st.sampled_from(KINDS))
    side = draw(st.sampled_from(["copy", "orig"]))
    paths = container_paths(spec)
    path = []
    if paths and draw(st.booleans()):
        path = list(draw(st.sampled_from(paths))[0])
    hist = draw(st.lists(c10.op_strategy(), min_size=0, max_size=6))
    return {"spec": spec, "kind": kind, "side": side, "path": path,
            "history": [list(o) for o in hist]}


def random_cases(acc, n, seed):
    @hseed(seed)
    @settings(max_examples=n, database=None, deadline=None,
              phases=[Phase.generate],
              suppress_health_check=list(HealthCheck))
    @given(case_strategy())
    def body(case):
        if acc.expired():
            acc.notes["budget_exhausted"] = 1
            return
        r = run_case(case)
        nt = nontrivial(case)
        acc.case(key=repr(case), nontrivial=nt,
                 sample=repr(case)[:400] if nt else None)
        acc.event("kind:" + kind_family(case["kind"]))
        acc.event("nested_mutation" if case["path"] else "top_mutation")
        if r is not None:
            acc.fail(r[0], case, r[1])

    body()


def loaded_labels(acc):
    """Containers as the loaders return them (not built by hand): every fixed label x
    every loader that accepts it x every way of copying x mutation of either side."""
    for i in range(len(LOADED_TEXTS)):
        for how in LOADERS:
            spec = {"text": i, "loader": how}
            try:
                m = build(spec)
            except Exception:
                acc.event("loaded:refused-by-loader")
                continue
            top = [[j] for j, (k, v) in enumerate(list(m)) if hasattr(v, "getall")]
            for kind in KINDS:
                for side in ("copy", "orig"):
                    for path in [[]] + top[:1]:
                        case = {"spec": spec, "kind": kind, "side": side, "path": path,
                                "history": [["append", "a", 1], ["delitem", "a"],
                                            ["insert3", 0, "b", 2], ["popitem"]]}
                        try:
                            r = run_case(case)
                        except Exception as e:
                            raise RuntimeError(f"harness: loaded_labels {case}: {e!r}")
                        acc.case(key=repr(case), nontrivial=True)
                        acc.event("loaded:" + kind_family(kind))
                        if r is not None:
                            acc.fail(r[0], case, r[1])


def shards(tier, seed):
    n = 250 if tier == "quick" else 6000
    return [("random_cases", dict(n=n, seed=seed * 1000 + j)) for j in range(16)] + \
        [("loaded_labels", {})]


def _tolist(x):
    if isinstance(x, (list, tuple)):
        return [_tolist(i) for i in x]
    if isinstance(x, dict):
        return {k: _tolist(v) for k, v in x.items()}
    return x


def replay(case):
    return run_case(_tolist(case))


def shrink(case, still_fails):
    cur = _tolist(case)

    def with_(**kw):
        c = dict(cur)
        c.update(kw)
        return c

    cur["history"] = shrink_seq(cur["history"],
                                lambda h: still_fails(with_(history=h)))
    if not cur["path"]:
        def pred(items):
            return still_fails(with_(spec={**cur["spec"], "items": items}))
        items = shrink_seq(cur["spec"]["items"], pred)
        cur["spec"] = {**cur["spec"], "items": items}
    return cur
