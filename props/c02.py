"""C02 - the default loader reads back everything any bundled encoder writes.

Same domain as C01 (module specs x four encoders x options); the reader is the
default permissive configuration OmniParser/OmniGrammar/OmniDecoder, first
through a budgeted twin (token-pull budget) and then through the real
``pvl.loads(text)`` call with no other arguments.  A quarter of the cases are the
literal ``pvl.loads(pvl.dumps(m))`` with no arguments at all.
"""
import pvl
from hypothesis import given, seed as hseed, settings, HealthCheck, Phase
from hypothesis import strategies as st

from props import c01
from vlib import gen_values as gv
from vlib import normalise as nm
from vlib.budget import backstop, WallClockBackstop
from vlib.dialects import ENCODERS

ID = "C02"
LEVEL = "exploration"
BUDGET = {"quick": 200, "thorough": 1200}
RULE = (
    "case = (encoder, options, module spec) as in C01, read with the default "
    "loader; 25% of cases are pvl.loads(pvl.dumps(m)) with no arguments. Oracle: "
    "load succeeds, canonical form == normalise(original) with the default "
    "reader's documented normalisations (ODL-family string folding, the documented "
    "dash-continuation rewrite, naive -> UTC, set == frozenset) and "
    "module.errors == []. Non-trivial as in C01, or the text contains a character "
    "the permissive grammar treats specially ('#', '-' before a line end, '+', "
    "NUL); distinct by the whole case."
)
ASSUMPTIONS = c01.ASSUMPTIONS + [
    "OmniParser.parse's documented removal of dash+line-end+white space applies "
    "to string content too and is treated as a documented normalisation",
]


def cases(enc):
    base = c01.cases(enc)
    noargs = st.fixed_dictionaries({
        "enc": st.just("PDS3"), "cfg": st.just({}),
        "spec": gv.modules("PDS3"), "noargs": st.just(True)})
    # (one_of() drops repeated strategy objects, so weight explicitly)
    return st.integers(0, 5).flatmap(lambda i: noargs if i == 0 else base)


def run_case(case):
    r = c01.run_case(case, reader="default", prop="C02", check_errors=True)
    if r[0] != "ok":
        return r
    text = r[1]
    # the real default path, after the budgeted twin has shown it terminates
    try:
        with backstop(300, cpu=True):
            if case.get("noargs"):
                m = gv.build_module(case["spec"])
                real = pvl.loads(pvl.dumps(m))
            else:
                real = pvl.loads(text)
    except WallClockBackstop:
        # (CPU time, not wall clock: the budgeted twin of this very load has returned)
        return ("fail", f"C02/{case['enc']}/real-default-does-not-return",
                f"pvl.loads(text) used 300 s of CPU time without returning; "
                f"text={text[:300]!r}")
    except Exception as e:
        return ("fail", f"C02/{case['enc']}/real-default-raises/{type(e).__name__}",
                f"pvl.loads(text) raised {e!r}; text={text!r}")
    n = nm.norm_for(case["enc"], "default", case["cfg"])
    d = nm.diff(nm.expect_module(case["spec"], n), nm.canon(real),
                allow_g2o=(case["enc"] == "PDS3"))
    if d is not None:
        return ("fail", f"C02/{case['enc']}/real-default-differs",
                f"pvl.loads(text) differs at {d[0]}: {d[1]!r} vs {d[2]!r}; "
                f"text={text!r}")
    return r


def nontrivial(case, text):
    if c01.nontrivial(case):
        return True
    return any(c in text for c in "#+\0") or "-\n" in text or "-\r" in text


def random_cases(acc, enc, n, seed):
    @hseed(seed)
    @settings(max_examples=n, database=None, deadline=None,
              phases=[Phase.generate],
              suppress_health_check=list(HealthCheck))
    @given(st.sampled_from(list(ENCODERS)).flatmap(cases))
    def body(case):
        if acc.expired():
            acc.notes["budget_exhausted"] = 1
            return
        r = run_case(case)
        e = case["enc"]
        acc.event(f"{e}:{r[0]}")
        if case.get("noargs"):
            acc.event("noargs_identity")
        if r[0] == "skip":
            return
        nt = r[0] == "ok" and nontrivial(case, r[1])
        acc.case(key=repr(case), nontrivial=nt,
                 sample={"enc": e, "cfg": case["cfg"], "text": r[1][:300]}
                 if nt else None)
        if r[0] == "ok":
            t = r[1]
            for ch, nm_ in (("#", "hash"), ("+", "plus"), ("\0", "nul")):
                if ch in t:
                    acc.event("text_has_" + nm_)
            if "-\n" in t or "-\r" in t:
                acc.event("text_has_dash_before_line_end")
        if r[0] == "fail":
            acc.fail(r[1], case, r[2])

    body()


def temporal_grid(acc):
    c01.temporal_grid(acc, run=run_case, prop="C02")


def width_sweep(acc, enc, n, seed):
    c01.width_sweep(acc, enc, n, seed, run=run_case, prop="C02")


def shards(tier, seed):
    n = 300 if tier == "quick" else 9000
    out = [("random_cases", dict(enc=ENCODERS[j % 4], n=n, seed=seed * 1000 + j))
           for j in range(16)] + [("temporal_grid", {})]
    for j in range(8):
        out.append(("width_sweep", dict(enc=ENCODERS[j % 4], seed=seed * 1000 + 500 + j,
                                        n=25 if tier == "quick" else 800)))
    return out


def replay(case):
    r = run_case(case)
    if r[0] == "fail":
        return (r[1], r[2])
    return None


def shrink(case, still_fails):
    return c01.shrink(case, still_fails)
